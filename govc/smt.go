package main

// Sorts, symbols and the memory model (see DESIGN.md §2.2):
//   Ref = Int, nil = 0, allocation counter `top` (every live ref is < top, fresh ref = top)
//   F:<T>.<f>   : (Array Int σ(f))                 one heap array per (struct type, field)
//   E:<τ>       : (Array Int (Array Int σ(τ)))     backing stores of slices / arrays, by element type
//   C:<τ>       : (Array Int σ(τ))                 cells of address-taken scalars, *string etc.
//   M:<K>:<V>   : (Array Int (Array σK σV)),  MH:<K>:<V> : (Array Int (Array σK Bool))
//   struct VALUES are SMT datatypes, slices (base off len cap), interfaces (tag val).

import (
	"sync"
	"fmt"
	"go/types"
	"sort"
	"strings"
)

func q(s string) string {
	s = strings.ReplaceAll(s, "|", "!")
	s = strings.ReplaceAll(s, "\\", "!")
	return "|" + s + "|"
}

func typeKey(t types.Type) string {
	return types.TypeString(unaliasDeep(t), func(p *types.Package) string { return p.Path() })
}

// unaliasDeep removes type aliases (any = interface{}, byte, rune stay basic) so that two spellings
// of one type give one heap-region key.
func unaliasDeep(t types.Type) types.Type {
	switch u := t.(type) {
	case *types.Alias:
		return unaliasDeep(types.Unalias(u))
	case *types.Pointer:
		return types.NewPointer(unaliasDeep(u.Elem()))
	case *types.Slice:
		return types.NewSlice(unaliasDeep(u.Elem()))
	case *types.Array:
		return types.NewArray(unaliasDeep(u.Elem()), u.Len())
	case *types.Map:
		return types.NewMap(unaliasDeep(u.Key()), unaliasDeep(u.Elem()))
	case *types.Chan:
		return types.NewChan(u.Dir(), unaliasDeep(u.Elem()))
	case *types.Interface:
		if u.Empty() {
			return emptyIface
		}
	}
	return t
}

var emptyIface = types.NewInterfaceType(nil, nil)

const preamble = `(set-option :produce-models true)
(set-logic ALL)
(declare-datatypes ((Slice 0)) (((mk-slice (s.base Int) (s.off Int) (s.len Int) (s.cap Int)))))
(declare-datatypes ((Iface 0)) (((mk-iface (i.tag Int) (i.val Int)))))
(declare-sort Flt 0)
(declare-fun subtag (Int) Int)
`

type sortInfo struct {
	name   string
	fields []*types.Var
}

// TypeCtx maps Go types to SMT sorts for one script.
type TypeCtx struct {
	emit    func(string) // emit a declaration
	structs map[string]*sortInfo
	tags    map[string]int
	tagList []string
	declared map[string]bool
}

func newTypeCtx(emit func(string)) *TypeCtx {
	return &TypeCtx{emit: emit, structs: map[string]*sortInfo{}, tags: map[string]int{}, declared: map[string]bool{}}
}

func (tc *TypeCtx) declareOnce(name, decl string) {
	if tc.declared[name] {
		return
	}
	tc.declared[name] = true
	tc.emit(decl)
}

func isStruct(t types.Type) (*types.Struct, bool) {
	s, ok := t.Underlying().(*types.Struct)
	return s, ok
}

func (tc *TypeCtx) sortOf(t types.Type) string {
	switch u := t.Underlying().(type) {
	case *types.Basic:
		switch {
		case u.Info()&types.IsBoolean != 0:
			return "Bool"
		case u.Info()&types.IsInteger != 0:
			return "Int"
		case u.Info()&types.IsString != 0:
			return "String"
		case u.Info()&types.IsFloat != 0, u.Info()&types.IsComplex != 0:
			return "Flt"
		case u.Kind() == types.UnsafePointer:
			return "Int"
		case u.Kind() == types.UntypedNil:
			return "Int"
		}
		return "Int"
	case *types.Pointer, *types.Map, *types.Chan, *types.Signature:
		return "Int"
	case *types.Slice:
		return "Slice"
	case *types.Interface:
		return "Iface"
	case *types.Array:
		return "(Array Int " + tc.sortOf(u.Elem()) + ")"
	case *types.Struct:
		return tc.structSort(t).name
	case *types.Tuple:
		return "Int" // never used as a term
	case *types.TypeParam:
		return "Int"
	}
	return "Int"
}

func (tc *TypeCtx) structSort(t types.Type) *sortInfo {
	key := typeKey(t)
	if _, named := t.(*types.Named); !named {
		if _, alias := t.(*types.Alias); !alias {
			key = typeKey(t.Underlying())
		}
	}
	if si, ok := tc.structs[key]; ok {
		return si
	}
	st := t.Underlying().(*types.Struct)
	si := &sortInfo{name: q("S:" + key)}
	tc.structs[key] = si
	var fs []string
	for i := 0; i < st.NumFields(); i++ {
		f := st.Field(i)
		si.fields = append(si.fields, f)
		fs = append(fs, fmt.Sprintf("(%s %s)", tc.accessor(si, i), tc.sortOf(f.Type())))
	}
	if len(fs) == 0 {
		tc.emit(fmt.Sprintf("(declare-datatypes ((%s 0)) (((%s))))", si.name, tc.ctor(si)))
	} else {
		tc.emit(fmt.Sprintf("(declare-datatypes ((%s 0)) (((%s %s))))", si.name, tc.ctor(si), strings.Join(fs, " ")))
	}
	return si
}

func (tc *TypeCtx) ctor(si *sortInfo) string { return q("mk" + strings.Trim(si.name, "|")) }
func (tc *TypeCtx) accessor(si *sortInfo, i int) string {
	return q(fmt.Sprintf("%s.%d.%s", strings.Trim(si.name, "|"), i, si.fields[i].Name()))
}

func (tc *TypeCtx) zero(t types.Type) string {
	switch u := t.Underlying().(type) {
	case *types.Basic:
		switch tc.sortOf(t) {
		case "Bool":
			return "false"
		case "String":
			return `""`
		case "Flt":
			tc.declareOnce("flt0", "(declare-const flt0 Flt)")
			return "flt0"
		}
		return "0"
	case *types.Slice:
		return "(mk-slice 0 0 0 0)"
	case *types.Interface:
		return "(mk-iface 0 0)"
	case *types.Array:
		return fmt.Sprintf("((as const %s) %s)", tc.sortOf(t), tc.zero(u.Elem()))
	case *types.Struct:
		si := tc.structSort(t)
		if len(si.fields) == 0 {
			return tc.ctor(si)
		}
		var a []string
		for _, f := range si.fields {
			a = append(a, tc.zero(f.Type()))
		}
		return "(" + tc.ctor(si) + " " + strings.Join(a, " ") + ")"
	}
	return "0"
}

// tagOf returns the dynamic-type tag of a concrete type stored in an interface.
func (tc *TypeCtx) tagOf(t types.Type) int {
	k := typeKey(t)
	if n, ok := tc.tags[k]; ok {
		return n
	}
	n := len(tc.tags) + 1
	tc.tags[k] = n
	tc.tagList = append(tc.tagList, k)
	return n
}

func intRange(t types.Type) (lo, hi string, ok bool) {
	b, isb := t.Underlying().(*types.Basic)
	if !isb || b.Info()&types.IsInteger == 0 {
		return "", "", false
	}
	switch b.Kind() {
	case types.Int8:
		return "(- 128)", "127", true
	case types.Int16:
		return "(- 32768)", "32767", true
	case types.Int32:
		return "(- 2147483648)", "2147483647", true
	case types.Int, types.Int64:
		return "(- 9223372036854775808)", "9223372036854775807", true
	case types.Uint8:
		return "0", "255", true
	case types.Uint16:
		return "0", "65535", true
	case types.Uint32:
		return "0", "4294967295", true
	case types.Uint, types.Uint64, types.Uintptr:
		return "0", "18446744073709551615", true
	}
	return "", "", false
}

func intBits(t types.Type) (bits int, signed bool) {
	b, isb := t.Underlying().(*types.Basic)
	if !isb {
		return 0, false
	}
	switch b.Kind() {
	case types.Int8:
		return 8, true
	case types.Int16:
		return 16, true
	case types.Int32:
		return 32, true
	case types.Int, types.Int64:
		return 64, true
	case types.Uint8:
		return 8, false
	case types.Uint16:
		return 16, false
	case types.Uint32:
		return 32, false
	case types.Uint, types.Uint64, types.Uintptr:
		return 64, false
	}
	return 0, false
}

func pow2(n int) string {
	// decimal string of 2^n
	digits := []int{1}
	for i := 0; i < n; i++ {
		carry := 0
		for j := range digits {
			v := digits[j]*2 + carry
			digits[j] = v % 10
			carry = v / 10
		}
		if carry > 0 {
			digits = append(digits, carry)
		}
	}
	var sb strings.Builder
	for i := len(digits) - 1; i >= 0; i-- {
		sb.WriteByte(byte('0' + digits[i]))
	}
	return sb.String()
}

// region keys
func fieldRegion(t types.Type, f *types.Var, idx int) string {
	key := typeKey(t)
	if _, named := t.(*types.Named); !named {
		key = typeKey(t.Underlying())
	}
	k := fmt.Sprintf("F:%s.%d.%s", key, idx, f.Name())
	regInfo.LoadOrStore(k, regionInfo{kind: 'C', typ: f.Type()})
	return k
}
func elemRegion(t types.Type) string {
	k := "E:" + typeKey(t)
	regInfo.LoadOrStore(k, regionInfo{kind: 'E', typ: t})
	return k
}
func cellRegion(t types.Type) string {
	k := "C:" + typeKey(t)
	regInfo.LoadOrStore(k, regionInfo{kind: 'C', typ: t})
	return k
}
func mapRegion(m *types.Map) string {
	k := "M:" + typeKey(m.Key()) + ":" + typeKey(m.Elem())
	regInfo.LoadOrStore(k, regionInfo{kind: 'M', m: m})
	return k
}
func mapHasRegion(m *types.Map) string {
	k := "MH:" + typeKey(m.Key()) + ":" + typeKey(m.Elem())
	regInfo.LoadOrStore(k, regionInfo{kind: 'H', m: m})
	return k
}
func ghostRegion(name string, ret types.Type) string {
	k := "G:" + name
	regInfo.LoadOrStore(k, regionInfo{kind: 'C', typ: ret})
	return k
}

type regionInfo struct {
	kind byte
	typ  types.Type
	m    *types.Map
}

var regInfo sync.Map

func init() { regInfo.Store("C:$iterpos", regionInfo{kind: 'C', typ: types.Typ[types.Int]}) }

func sortedKeys[V any](m map[string]V) []string {
	var ks []string
	for k := range m {
		ks = append(ks, k)
	}
	sort.Strings(ks)
	return ks
}

func and(xs ...string) string {
	var ys []string
	for _, x := range xs {
		if x == "true" || x == "" {
			continue
		}
		if x == "false" {
			return "false"
		}
		ys = append(ys, x)
	}
	switch len(ys) {
	case 0:
		return "true"
	case 1:
		return ys[0]
	}
	return "(and " + strings.Join(ys, " ") + ")"
}
func or(xs ...string) string {
	var ys []string
	for _, x := range xs {
		if x == "false" || x == "" {
			continue
		}
		if x == "true" {
			return "true"
		}
		ys = append(ys, x)
	}
	switch len(ys) {
	case 0:
		return "false"
	case 1:
		return ys[0]
	}
	return "(or " + strings.Join(ys, " ") + ")"
}
func not(x string) string {
	switch x {
	case "true":
		return "false"
	case "false":
		return "true"
	}
	return "(not " + x + ")"
}
func implies(a, b string) string {
	if a == "true" {
		return b
	}
	if a == "false" || b == "true" {
		return "true"
	}
	return "(=> " + a + " " + b + ")"
}
func smtInt(n int64) string {
	if n < 0 {
		return fmt.Sprintf("(- %d)", -n)
	}
	return fmt.Sprintf("%d", n)
}
func smtStr(s string) string {
	var sb strings.Builder
	sb.WriteByte('"')
	for _, r := range []byte(s) { // Go strings are byte sequences: one SMT character per byte
		switch {
		case r == '"':
			sb.WriteString(`""`)
		case r < 0x20 || r > 0x7e || r == '\\':
			fmt.Fprintf(&sb, `\u{%x}`, r)
		default:
			sb.WriteByte(r)
		}
	}
	sb.WriteByte('"')
	return sb.String()
}
