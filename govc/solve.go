package main

import (
	"bytes"
	"context"
	"fmt"
	"os"
	"os/exec"
	"path/filepath"
	"strings"
	"sync"
	"time"

	"golang.org/x/tools/go/ssa"
)

type FuncResult struct {
	Func        string
	Pos         string
	Obligations []*Obligation
	Unsupported []string
	Warnings    []string
	Trusted     []string // trusted contracts applied at call sites
	Used        []string
	Havoc       []string // callees without contract (result and mod-set havoced)
	Inlined     []string // callees executed in place (their own safety obligations assumed here)
	Dropped     []string // inferred invariant candidates that did not hold
	Inferred    []string
	Rounds      int
	WallS       float64
	HasContract bool
}

type SolverCfg struct {
	QuickTimeoutMs int
	RaceTimeoutS   int
	OutDir         string // where SMT files of failed/sample obligations are kept
	Thorough       bool
	Seed           int
}

func (s *Sess) header() string {
	var sb strings.Builder
	sb.WriteString(preamble)
	for _, c := range s.cmds {
		if c.kind == 'd' && strings.HasPrefix(c.text, "(declare-") || c.kind == 'd' && strings.HasPrefix(c.text, "(define-") {
			sb.WriteString(c.text)
			sb.WriteByte('\n')
		}
	}
	for _, a := range s.axioms {
		sb.WriteString(a)
		sb.WriteByte('\n')
	}
	return sb.String()
}

func hoisted(c Cmd) bool {
	return c.kind == 'd' && (strings.HasPrefix(c.text, "(declare-") || strings.HasPrefix(c.text, "(define-"))
}

// blockReachMap: for every block, the set of blocks from which it can be reached (its ancestors in
// the CFG, back edges included), plus itself.
var ancMu sync.Mutex

func (s *Sess) ancestors(blk int) map[int]bool {
	ancMu.Lock()
	defer ancMu.Unlock()
	if s.reachTo == nil {
		s.reachTo = map[int]map[int]bool{}
	}
	if m, ok := s.reachTo[blk]; ok {
		return m
	}
	m := map[int]bool{blk: true}
	if blk >= 0 && blk < len(s.fn.Blocks) && s.inlineFnOK() {
		stack := []*ssa.BasicBlock{s.fn.Blocks[blk]}
		for len(stack) > 0 {
			b := stack[len(stack)-1]
			stack = stack[:len(stack)-1]
			for _, p := range b.Preds {
				if !m[p.Index] {
					m[p.Index] = true
					stack = append(stack, p)
				}
			}
		}
	}
	s.reachTo[blk] = m
	return m
}

func (s *Sess) inlineFnOK() bool { return true }

// scriptPrefix is everything that precedes command `upto`. When forBlk >= 0 the prefix is sliced
// to the commands generated in blocks that can reach forBlk: code on other branches can neither
// execute before the obligation nor constrain it (dropping assumptions only weakens the query).
func (s *Sess) scriptPrefix(upto int, forBlk int) string {
	var sb strings.Builder
	if s.absStr {
		sb.WriteString(";abs\n")
	}
	sb.WriteString(s.header())
	var anc map[int]bool
	if forBlk >= 0 && !s.noSlice {
		anc = s.ancestors(forBlk)
	}
	for i := 0; i < upto && i < len(s.cmds); i++ {
		c := s.cmds[i]
		if hoisted(c) {
			continue
		}
		if anc != nil && c.blk >= 0 && !anc[c.blk] {
			continue
		}
		switch c.kind {
		case 'd', 'a':
			sb.WriteString(c.text)
			sb.WriteByte('\n')
		case 'o':
			// earlier obligations are assumed (they are reported separately if they fail)
			if c.ob.Houdini != nil && !c.ob.Houdini.alive || c.ob.MustFail || c.ob.NoAssume {
				continue
			}
			fmt.Fprintf(&sb, "(assert %s)\n", c.ob.Formula)
		}
	}
	return sb.String()
}

func (s *Sess) incrementalScript(timeoutMs int) string {
	var sb strings.Builder
	if s.absStr {
		sb.WriteString(";abs\n")
	}
	fmt.Fprintf(&sb, "(set-option :timeout %d)\n", timeoutMs)
	sb.WriteString(s.header())
	for _, c := range s.cmds {
		if hoisted(c) {
			continue
		}
		switch c.kind {
		case 'd', 'a':
			sb.WriteString(c.text)
			sb.WriteByte('\n')
		case 'o':
			if c.ob.NoAssume {
				fmt.Fprintf(&sb, "(push 1)\n(assert (not %s))\n(check-sat)\n(pop 1)\n", c.ob.Formula)
			} else if c.ob.MustFail {
				fmt.Fprintf(&sb, "(set-option :timeout 1500)\n(push 1)\n(assert (not %s))\n(check-sat)\n(pop 1)\n", c.ob.Formula)
			} else {
				fmt.Fprintf(&sb, "(push 1)\n(assert (not %s))\n(check-sat)\n(pop 1)\n(assert %s)\n", c.ob.Formula, c.ob.Formula)
			}
		}
	}
	return sb.String()
}

var solverSem = make(chan struct{}, 14)

func runSolver(ctx context.Context, solver string, script string, timeoutS int) (string, string, float64) {
	solverSem <- struct{}{}
	defer func() { <-solverSem }()
	if ctx.Err() != nil {
		return "", "", 0
	}
	t0 := time.Now()
	script = selectVariant(script, solver != "cvc5")
	if strings.HasPrefix(script, ";abs\n") {
		script = abstractStrings(script)
	}
	var cmd *exec.Cmd
	switch solver {
	case "z3-new":
		cmd = exec.CommandContext(ctx, "z3-new", "-in", fmt.Sprintf("-T:%d", timeoutS))
	case "z3":
		cmd = exec.CommandContext(ctx, "z3", "-in", fmt.Sprintf("-T:%d", timeoutS))
	case "cvc5":
		cmd = exec.CommandContext(ctx, "cvc5", "--lang=smt2", "--strings-exp", fmt.Sprintf("--tlimit=%d", timeoutS*1000), "--produce-models")
	}
	cmd.Stdin = strings.NewReader(script)
	var out, errb bytes.Buffer
	cmd.Stdout = &out
	cmd.Stderr = &errb
	_ = cmd.Run()
	return out.String(), errb.String(), time.Since(t0).Seconds()
}

func firstLine(s string) string {
	s = strings.TrimSpace(s)
	if i := strings.IndexByte(s, '\n'); i >= 0 {
		return strings.TrimSpace(s[:i])
	}
	return s
}

// solveSession discharges all obligations of a session.
func solveSession(s *Sess, cfg SolverCfg) {
	if len(s.obs) == 0 {
		return
	}
	// big functions: the whole-function incremental script is too large to be useful; go straight
	// to one sliced query per obligation
	if len(s.fn.Blocks) > 150 || len(s.cmds) > 8000 {
		var wg sync.WaitGroup
		for _, ob := range s.obs {
			ob.Status = "unknown"
			if ob.MustFail {
				ob.Status = "unsat"
				ob.Solver = "(cover skipped: function too large for a whole-function query)"
				continue
			}
			wg.Add(1)
			go func(ob *Obligation) {
				defer wg.Done()
				raceObligation(s, ob, cfg)
			}(ob)
		}
		wg.Wait()
		return
	}
	// phase 1: one incremental run over the whole function on z3-new and on cvc5, in parallel
	script := s.incrementalScript(cfg.QuickTimeoutMs)
	ctx := context.Background()
	type inc struct {
		lines []string
		dt    float64
	}
	run := func(solver string) inc {
		sc := script
		var out string
		var dt float64
		if solver == "cvc5" {
			sc = selectVariant(sc, false)
			if strings.HasPrefix(sc, ";abs\n") {
				sc = abstractStrings(sc)
			}
			sc = strings.Replace(sc, "(set-option :produce-models true)\n", "", 1)
			sc = strings.Replace(sc, fmt.Sprintf("(set-option :timeout %d)\n", cfg.QuickTimeoutMs), "", 1)
			if i := strings.Index(sc, "(set-option :timeout 1500)\n"); i >= 0 {
				sc = sc[:i] + "(echo \"unknown\")\n"
			}
			t0 := time.Now()
			cmd := exec.CommandContext(ctx, "cvc5", "--lang=smt2", "--incremental", "--strings-exp", fmt.Sprintf("--tlimit-per=%d", cfg.QuickTimeoutMs), fmt.Sprintf("--tlimit=%d", cfg.QuickTimeoutMs*len(s.obs)+30000))
			cmd.Stdin = strings.NewReader(sc)
			var ob bytes.Buffer
			cmd.Stdout = &ob
			_ = cmd.Run()
			out, dt = ob.String(), time.Since(t0).Seconds()
		} else {
			out, _, dt = runSolver(ctx, solver, sc, cfg.QuickTimeoutMs/1000*len(s.obs)+30)
		}
		return inc{strings.Split(strings.TrimSpace(out), "\n"), dt}
	}
	var rz, rc inc
	var wg1 sync.WaitGroup
	wg1.Add(2)
	go func() { defer wg1.Done(); rz = run("z3-new") }()
	go func() { defer wg1.Done(); rc = run("cvc5") }()
	wg1.Wait()
	for i, ob := range s.obs {
		ob.Status = "unknown"
		ob.Solver = "z3-new(incremental)"
		ob.TimeS = rz.dt / float64(len(s.obs))
		if i < len(rz.lines) {
			l := strings.TrimSpace(rz.lines[i])
			if l == "unsat" || l == "sat" || l == "unknown" {
				ob.Status = l
			} else if strings.HasPrefix(l, "(error") {
				ob.Status = "error"
				ob.Model = l
			}
		}
		if ob.Status != "unsat" && i < len(rc.lines) && len(rc.lines) == len(s.obs) && strings.TrimSpace(rc.lines[i]) == "unsat" {
			ob.Status = "unsat"
			ob.Solver = "cvc5(incremental)"
			ob.TimeS = rc.dt / float64(len(s.obs))
		}
	}
	// phase 2: every obligation not yet discharged is raced standalone on all solvers
	var wg sync.WaitGroup
	for _, ob := range s.obs {
		if ob.MustFail {
			// must-fail check: anything but unsat is the expected outcome
			if ob.Status == "unsat" {
				ob.Status = "vacuous"
			} else {
				ob.Status = "unsat"
				ob.Solver += " (cover: not refuted)"
			}
			continue
		}
		if ob.Status == "unsat" {
			continue
		}
		wg.Add(1)
		go func(ob *Obligation) {
			defer wg.Done()
			raceObligation(s, ob, cfg)
		}(ob)
	}
	wg.Wait()
}

func raceObligation(s *Sess, ob *Obligation, cfg SolverCfg) {
	prefix := s.scriptPrefix(ob.cmdIdx, ob.blk)
	query := prefix + fmt.Sprintf("(assert (not %s))\n(check-sat)\n", ob.Formula)
	type res struct {
		solver, status, model string
		dt                    float64
	}
	ctx, cancel := context.WithCancel(context.Background())
	defer cancel()
	ch := make(chan res, 4)
	solvers := []string{"z3-new", "z3-new/noauto", "z3", "cvc5"}
	for _, sv := range solvers {
		go func(sv string) {
			q := query
			svName := sv
			if sv == "z3-new/noauto" {
				if strings.HasPrefix(q, ";abs\n") {
					q = ";abs\n(set-option :auto_config false)\n" + strings.TrimPrefix(q, ";abs\n")
				} else {
					q = "(set-option :auto_config false)\n" + q
				}
				sv = "z3-new"
			}
			if sv != "cvc5" {
				q += "(get-model)\n"
			} else {
				q = strings.Replace(q, "(set-option :produce-models true)\n", "", 1)
			}
			out, errs, dt := runSolver(ctx, sv, q, cfg.RaceTimeoutS)
			st := firstLine(out)
			if st != "sat" && st != "unsat" && st != "unknown" {
				if strings.Contains(out, "timeout") || ctx.Err() != nil {
					st = "timeout"
				} else if st == "" {
					st = "timeout"
				} else {
					st = "error:" + st + " " + firstLine(errs)
				}
			}
			model := ""
			if st == "sat" {
				if i := strings.IndexByte(out, '\n'); i >= 0 {
					model = out[i+1:]
				}
			}
			ch <- res{svName, st, model, dt}
		}(sv)
	}
	var best res
	best.status = "timeout"
	for range solvers {
		r := <-ch
		if r.status == "unsat" {
			best = r
			cancel()
			break
		}
		if r.status == "sat" && best.status != "sat" {
			best = r
			// a sat answer on a quantifier-free goal is final; keep waiting only briefly for unsat
			// from another solver is pointless — sat and unsat cannot both be right
			cancel()
			break
		}
		if best.status == "timeout" || (best.status != "sat" && strings.HasPrefix(best.status, "error")) {
			best = r
		}
	}
	ob.Status = best.status
	ob.Solver = best.solver
	ob.TimeS = best.dt
	ob.Model = best.model
	if cfg.OutDir != "" && ob.Status != "unsat" {
		os.MkdirAll(cfg.OutDir, 0o755)
		fn := filepath.Join(cfg.OutDir, sanitizeFile(ob.Name)+".smt2")
		if ob.Kind == "post" {
			fn = filepath.Join(cfg.OutDir, fmt.Sprintf("%s-b%d.smt2", sanitizeFile(ob.Name), ob.blk))
		}
		os.WriteFile(fn, []byte(query+"(get-model)\n"), 0o644)
	}
}

func sanitizeFile(s string) string {
	r := strings.NewReplacer("/", "_", "*", "", "(", "", ")", "", " ", "_", "#", "-", "$", "_", ":", "_")
	return r.Replace(s)
}

// VerifyFunc runs VC generation and solving with the Houdini loop for inferred invariants.
func (e *Engine) VerifyFunc(fn *ssa.Function, cfg SolverCfg) *FuncResult {
	return e.VerifyFuncOpts(fn, cfg, false, nil)
}

func (e *Engine) VerifyFuncOpts(fn *ssa.Function, cfg SolverCfg, nilcheck bool, mu *sync.Mutex) *FuncResult {
	t0 := time.Now()
	lock := func() {
		if mu != nil {
			mu.Lock()
		}
	}
	unlock := func() {
		if mu != nil {
			mu.Unlock()
		}
	}
	res := &FuncResult{Func: e.fnShort(fn), Pos: e.fset.Position(fn.Pos()).String()}
	dead := map[string]bool{}
	for round := 1; round <= 6; round++ {
		lock()
		s := &Sess{eng: e, fn: fn, ct: e.contractFor(fn), nilcheck: nilcheck}
		res.HasContract = s.ct != nil
		func() {
			defer unlock()
			defer func() {
				if r := recover(); r != nil {
					if ee, ok := r.(evalErr); ok {
						s.unsupp("%s", string(ee))
						return
					}
					s.unsupp("internal error: %v", r)
					if os.Getenv("GOVC_DEBUG") != "" {
						panic(r)
					}
				}
			}()
			s.runWithDead(dead)
		}()
		solveSession(s, cfg)
		res.Rounds = round
		again := false
		for _, ob := range s.obs {
			if ob.Houdini != nil && ob.Status != "unsat" && ob.Houdini.alive {
				key := fmt.Sprintf("%d:%s", ob.Houdini.loop.ordinal, ob.Houdini.desc)
				if !dead[key] {
					dead[key] = true
					res.Dropped = append(res.Dropped, fmt.Sprintf("loop %d: %s", ob.Houdini.loop.ordinal, ob.Houdini.desc))
					again = true
				}
			}
		}
		if again {
			continue
		}
		e.pathSplit(fn, s, dead, cfg, mu)
		res.Obligations = nil
		for _, ob := range s.obs {
			if ob.Houdini != nil {
				continue
			}
			res.Obligations = append(res.Obligations, ob)
		}
		for _, li := range s.loopList {
			for _, c := range li.cands {
				res.Inferred = append(res.Inferred, fmt.Sprintf("loop %d: %s", li.ordinal, c.desc))
			}
		}
		res.Unsupported = s.unsupported
		res.Warnings = s.warnings
		res.Trusted = sortedKeys(s.trustedUsed)
		res.Used = sortedKeys(s.funcsUsed)
		res.Havoc = sortedKeys(s.havocCalls)
		res.Inlined = sortedKeys(s.inlined)
		break
	}
	res.WallS = time.Since(t0).Seconds()
	return res
}

func (s *Sess) runWithDead(dead map[string]bool) {
	s.preDead = dead
	s.run()
}

// enumPaths lists the acyclic paths (as sets of dead edges) of the loop-cut CFG, up to budget.
func enumPaths(fn *ssa.Function, budget int) []map[[2]int]bool {
	var paths [][][2]int
	var cur [][2]int
	over := false
	var dfs func(b *ssa.BasicBlock)
	dfs = func(b *ssa.BasicBlock) {
		if over {
			return
		}
		var succs []*ssa.BasicBlock
		for _, sc := range b.Succs {
			if !sc.Dominates(b) { // not a back edge
				succs = append(succs, sc)
			}
		}
		if len(succs) == 0 {
			if len(paths) >= budget {
				over = true
				return
			}
			paths = append(paths, append([][2]int{}, cur...))
			return
		}
		for _, sc := range succs {
			cur = append(cur, [2]int{b.Index, sc.Index})
			dfs(sc)
			cur = cur[:len(cur)-1]
		}
	}
	dfs(fn.Blocks[0])
	if over {
		return nil
	}
	var out []map[[2]int]bool
	for _, p := range paths {
		live := map[[2]int]bool{}
		for _, e := range p {
			live[e] = true
		}
		dead := map[[2]int]bool{}
		for _, b := range fn.Blocks {
			for _, sc := range b.Succs {
				if sc.Dominates(b) {
					continue
				}
				if !live[[2]int{b.Index, sc.Index}] {
					dead[[2]int{b.Index, sc.Index}] = true
				}
			}
		}
		out = append(out, dead)
	}
	return out
}

// pathSplit retries every undischarged obligation path by path: the VC of one path has no merged
// (ite) heaps, which the solvers handle far more reliably. Discharged only if every path is.
func (e *Engine) pathSplit(fn *ssa.Function, s *Sess, dead map[string]bool, cfg SolverCfg, mu *sync.Mutex) {
	var failing []int
	for i, ob := range s.obs {
		if ob.Houdini == nil && !ob.MustFail && ob.Status != "unsat" {
			failing = append(failing, i)
		}
	}
	if len(failing) == 0 {
		return
	}
	paths := enumPaths(fn, 48)
	if len(paths) < 2 {
		return
	}
	okAll := map[int]bool{}
	for _, i := range failing {
		okAll[i] = true
	}
	var total float64
	for pi, deadEdges := range paths {
		ps := &Sess{eng: e, fn: fn, ct: s.ct, edgeDead: deadEdges, nilcheck: s.nilcheck}
		ok := func() (ok bool) {
			if mu != nil {
				mu.Lock()
				defer mu.Unlock()
			}
			defer func() {
				if r := recover(); r != nil {
					ok = false
				}
			}()
			ps.runWithDead(dead)
			return true
		}()
		if !ok || len(ps.obs) != len(s.obs) {
			return
		}
		var wg sync.WaitGroup
		for _, i := range failing {
			if !okAll[i] {
				continue
			}
			ob := ps.obs[i]
			if strings.HasPrefix(ob.Formula, "(=> false") || ob.Formula == "true" {
				ob.Status = "unsat"
				continue
			}
			wg.Add(1)
			go func(ob *Obligation) {
				defer wg.Done()
				c2 := cfg
				if c2.OutDir != "" {
					c2.OutDir = filepath.Join(c2.OutDir, fmt.Sprintf("path%d", pi))
				}
				raceObligation(ps, ob, c2)
			}(ob)
		}
		wg.Wait()
		for _, i := range failing {
			if ps.obs[i].Status != "unsat" {
				okAll[i] = false
			} else {
				total += ps.obs[i].TimeS
			}
		}
	}
	for _, i := range failing {
		if okAll[i] {
			s.obs[i].Status = "unsat"
			s.obs[i].Solver = fmt.Sprintf("path-split(%d paths)", len(paths))
			s.obs[i].TimeS = total
			s.obs[i].Model = ""
		}
	}
}

// selectVariant picks, for lines of the form "<quantified form> ;@lambda <z3 lambda form>", the
// form the solver supports (z3 accepts lambda-defined arrays, which avoids quantifier instantiation).
func selectVariant(script string, lambda bool) string {
	if !strings.Contains(script, ";@lambda ") {
		return script
	}
	lines := strings.Split(script, "\n")
	for i, l := range lines {
		j := strings.Index(l, ";@lambda ")
		if j < 0 {
			continue
		}
		if lambda {
			lines[i] = l[j+len(";@lambda "):]
		} else {
			lines[i] = strings.TrimSpace(l[:j])
		}
	}
	return strings.Join(lines, "\n")
}
