package main

import (
	"fmt"
	"go/token"
	"go/types"
	"strings"

	"golang.org/x/tools/go/ssa"
)

// computeLoopMods collects, per loop, the heap regions that may be written inside it.
func (s *Sess) computeLoopMods() {
	for _, li := range s.loopList {
		for b := range li.blocks {
			for _, in := range b.Instrs {
				s.eng.instrMods(s.fn, in, li.mod, li.blocks)
			}
		}
	}
}

// havocMods havocs the regions of a mod set on st; regions written only on freshly allocated
// objects keep their old contents below oldTop (quantified frame axiom).
// assumeFreeInvs assumes the function's free invariants in state st.
func (s *Sess) assumeFreeInvs(st *State) {
	if s.ct == nil || s.inlineDepth > 0 {
		return
	}
	for _, c := range s.ct.FreeInvs {
		if c.E == nil {
			continue
		}
		ce := s.funcEnv(st, s.entry, nil)
		f, err := ce.evalAssume(c.E)
		if err != nil {
			s.detached("free invariant %q: %v", c.Src, err)
			continue
		}
		s.assumeAt(st, f)
	}
}

func (s *Sess) havocMods(st *State, mod map[string]bool, oldTop string) {
	defer s.assumeFreeInvs(st)
	// the allocation counter moves first so that havoced regions are well-formed w.r.t. the new top
	newTop := s.fresh("top", "Int")
	s.assume(fmt.Sprintf("(<= %s %s)", st.top, newTop))
	st.top = newTop
	if mod["*"] {
		// everything may change: start a new epoch
		s.nfresh++
		prev := epochPred{heap: st.heap, base: st.base, top: oldTop, except: mod}
		st.base = fmt.Sprintf("Hall%d", s.nfresh)
		s.epochTop[st.base] = newTop
		s.epochPrev[st.base] = []epochPred{prev}
		st.heap = map[string]string{}
		s.havocCalls["*"] = true
		return
	}
	for _, k := range sortedKeys(mod) {
		sort, ok := s.sortOfRegion(k)
		if !ok {
			continue
		}
		old := s.region(st, k, sort)
		st.heap[k] = s.fresh("Hv:"+k, sort)
		s.wfRegion(st.heap[k], k, st.top)
		if !mod[k] { // fresh-only writes: objects that existed before keep their contents
			hf := s.fresh("Hf:"+k, sort)
			s.wfRegion(hf, k, st.top)
			s.cmds = append(s.cmds, Cmd{'a', fmt.Sprintf("(assert (forall ((o Int)) (! (=> (< o %s) (= (select %s o) (select %s o))) :pattern ((select %s o))))) ;@lambda (assert (= %s (lambda ((o Int)) (ite (< o %s) (select %s o) (select %s o)))))",
				oldTop, st.heap[k], old, st.heap[k], st.heap[k], oldTop, old, hf), nil, s.curBlk})
		}
	}
}

func (s *Sess) phiEntryVal(li *loopInfo, phi *ssa.Phi, entryPreds []*ssa.BasicBlock) Val {
	b := phi.Block()
	var terms, conds []string
	for i, p := range b.Preds {
		isEntry := false
		for _, e := range entryPreds {
			if e == p {
				isEntry = true
			}
		}
		if !isEntry || s.out[p] == nil || s.edgeCond(p, b) == "false" {
			continue
		}
		terms = append(terms, s.val(phi.Edges[i]).t)
		conds = append(conds, s.edgeCond(p, b))
	}
	if len(terms) == 0 {
		return Val{t: s.tc.zero(phi.Type()), typ: phi.Type()}
	}
	r := terms[len(terms)-1]
	for i := len(terms) - 2; i >= 0; i-- {
		if terms[i] != r {
			r = fmt.Sprintf("(ite %s %s %s)", conds[i], terms[i], r)
		}
	}
	return Val{t: r, typ: phi.Type()}
}

func headerPhis(b *ssa.BasicBlock) []*ssa.Phi {
	var out []*ssa.Phi
	for _, in := range b.Instrs {
		if p, ok := in.(*ssa.Phi); ok {
			out = append(out, p)
		} else if _, ok := in.(*ssa.DebugRef); !ok {
			break
		}
	}
	return out
}

func (s *Sess) loopEnv(li *loopInfo, heap *State, phiVal func(*ssa.Phi) Val) *CEnv {
	c := s.funcEnv(heap, s.entry, nil)
	c.lookup = func(name string) (Val, bool) {
		return s.resolveLocal(li, name, heap, phiVal)
	}
	// loop-local names shadow parameters that are reassigned in the loop
	for _, phi := range headerPhis(li.header) {
		if phi.Comment != "" {
			delete(c.vars, phi.Comment)
		}
	}
	return c
}

// resolveLocal maps a source-level local name to its value at the head of loop li.
func (s *Sess) loopMapIter(li *loopInfo) (*mapIter, *ssa.Range) {
	if li == nil {
		return nil, nil
	}
	for b := range li.blocks {
		for _, in := range b.Instrs {
			if nx, ok := in.(*ssa.Next); ok && !nx.IsString {
				if r, ok := nx.Iter.(*ssa.Range); ok && !li.blocks[r.Block()] {
					return s.mapIters[r], r
				}
			}
		}
	}
	return nil, nil
}

func (s *Sess) resolveLocal(li *loopInfo, name string, heap *State, phiVal func(*ssa.Phi) Val) (Val, bool) {
	if name == "$mapiter" {
		if mi, _ := s.loopMapIter(li); mi != nil {
			return Val{parts: []Val{{t: mi.keys, typ: mi.m.Key()}, {t: mi.pos, typ: tInt}}}, true
		}
		return Val{}, false
	}
	if name == "$mappos" || name == "$maplen" {
		if mi, r := s.loopMapIter(li); mi != nil {
			if name == "$maplen" {
				return Val{t: mi.n, typ: tInt}, true
			}
			H := s.region(heap, "C:$iterpos", "(Array Int Int)")
			return Val{t: fmt.Sprintf("(select %s %s)", H, s.val(r).t), typ: tInt}, true
		}
		return Val{}, false
	}
	if name == "$iter" {
		for _, phi := range headerPhis(li.header) {
			if phi.Comment == "rangeindex" {
				v := phiVal(phi)
				return Val{t: fmt.Sprintf("(+ %s 1)", v.t), typ: tInt}, true
			}
		}
		return Val{}, false
	}
	for _, phi := range headerPhis(li.header) {
		if phi.Comment == name {
			return phiVal(phi), true
		}
	}
	// address-taken local
	for _, b := range s.fn.Blocks {
		for _, in := range b.Instrs {
			if a, ok := in.(*ssa.Alloc); ok && a.Comment == name {
				if av, ok := s.env[a]; ok {
					T := derefType(a.Type())
					return Val{t: s.load(heap, av, T), typ: T}, true
				}
			}
		}
	}
	// a value defined outside the loop and referred to under this name
	var found ssa.Value
	consider := func(d *ssa.DebugRef) bool {
		if d.IsAddr {
			return true
		}
		x := d.X
		if in, ok := x.(ssa.Instruction); ok && li != nil && li.blocks[in.Block()] {
			return true // defined inside the loop: not a loop-head value
		}
		if found != nil && found != x {
			// several candidates: prefer the one whose definition dominates the header latest
			fi, ok1 := found.(ssa.Instruction)
			xi, ok2 := x.(ssa.Instruction)
			if ok1 && ok2 {
				if fi.Block().Dominates(xi.Block()) {
					found = x
				}
				return true
			}
			if ok2 {
				found = x
			}
			return true
		}
		found = x
		return true
	}
	for _, d := range s.debugRefs[name] {
		if li == nil || li.blocks[d.Block()] {
			consider(d)
		}
	}
	if found == nil {
		for _, d := range s.debugRefs[name] {
			if li == nil || d.Block().Dominates(li.header) {
				consider(d)
			}
		}
	}
	if found != nil {
		v := s.val(found)
		if v.place == nil {
			return v, true
		}
	}
	return Val{}, false
}

func (s *Sess) enterLoop(li *loopInfo, st *State, entryPreds []*ssa.BasicBlock) {
	h := li.header
	phis := headerPhis(h)
	entryVals := map[*ssa.Phi]Val{}
	for _, p := range phis {
		entryVals[p] = s.phiEntryVal(li, p, entryPreds)
	}
	entryHeap := st.clone()
	li.entryTop = st.top
	s.buildCandidates(li, phis, entryVals)

	// invariants hold on entry
	if li.spec != nil {
		for i, inv := range li.spec.Invariants {
			if inv.E == nil {
				continue
			}
			c := s.loopEnv(li, entryHeap, func(p *ssa.Phi) Val { return entryVals[p] })
			f, err := c.evalBool(inv.E)
			if err != nil {
				s.detached("loop %d invariant %q: %v", li.ordinal, inv.Src, err)
				continue
			}
			s.oblige(entryHeap, "inv", fmt.Sprintf("inv%d.%s.entry", li.ordinal, labelOr(inv.Label, i)), f, h.Instrs[0].Pos(), inv.Src)
		}
	}
	for _, cd := range li.cands {
		ob := s.oblige(entryHeap, "inv", fmt.Sprintf("inv%d.auto.entry", li.ordinal), cd.expr(func(p *ssa.Phi) Val { return entryVals[p] }), h.Instrs[0].Pos(), "inferred: "+cd.desc)
		ob.Houdini = cd
	}
	// havoc
	s.havocMods(st, li.mod, st.top)
	for _, p := range phis {
		s.havocVal(p, st)
	}
	li.headState = st.clone()
	cur := func(p *ssa.Phi) Val { return s.env[p] }
	if li.spec != nil {
		for _, inv := range li.spec.Invariants {
			if inv.E == nil {
				continue
			}
			c := s.loopEnv(li, st, cur)
			f, err := c.evalAssume(inv.E)
			if err != nil {
				continue
			}
			s.assumeAt(st, f)
		}
		if d := li.spec.Decreases; d != nil && d.E != nil {
			c := s.loopEnv(li, st, cur)
			v, err := c.evalVal(d.E)
			if err != nil {
				s.unsupp("loop %d decreases: %v", li.ordinal, err)
			} else {
				li.decrAtHead = s.define("dec", "Int", v.t)
			}
		}
	}
	for _, cd := range li.cands {
		if cd.alive {
			s.assumeAt(st, cd.expr(cur))
		}
	}
}

func labelOr(l string, i int) string {
	if l != "" {
		return l
	}
	return fmt.Sprintf("%d", i)
}

func (s *Sess) checkBackEdge(li *loopInfo, from *ssa.BasicBlock) {
	h := li.header
	st := s.out[from].clone()
	st.reach = s.edgeCond(from, h)
	idx := -1
	for i, p := range h.Preds {
		if p == from {
			idx = i
		}
	}
	next := func(p *ssa.Phi) Val { return s.val(p.Edges[idx]) }
	suffix := ""
	nback := 0
	for _, p := range h.Preds {
		if h.Dominates(p) {
			nback++
		}
	}
	if nback > 1 {
		k := 0
		for _, p := range h.Preds {
			if p == from {
				break
			}
			if h.Dominates(p) {
				k++
			}
		}
		suffix = fmt.Sprintf(".%d", k)
	}
	if li.spec != nil {
		for i, inv := range li.spec.Invariants {
			if inv.E == nil {
				continue
			}
			c := s.loopEnv(li, st, next)
			f, err := c.evalBool(inv.E)
			if err != nil {
				s.detached("loop %d invariant %q (step): %v", li.ordinal, inv.Src, err)
				continue
			}
			s.oblige(st, "inv", fmt.Sprintf("inv%d.%s.step%s", li.ordinal, labelOr(inv.Label, i), suffix), f, from.Instrs[len(from.Instrs)-1].Pos(), inv.Src)
		}
		if d := li.spec.Decreases; d != nil && d.E != nil && li.decrAtHead != "" {
			c := s.loopEnv(li, st, next)
			v, err := c.evalVal(d.E)
			if err == nil {
				s.oblige(st, "dec", fmt.Sprintf("dec%d%s", li.ordinal, suffix), fmt.Sprintf("(and (<= 0 %s) (< %s %s))", li.decrAtHead, v.t, li.decrAtHead), h.Instrs[0].Pos(), "loop variant decreases and is bounded: "+d.Src)
			}
		}
	}
	for _, cd := range li.cands {
		ob := s.oblige(st, "inv", fmt.Sprintf("inv%d.auto.step%s", li.ordinal, suffix), cd.expr(next), h.Instrs[0].Pos(), "inferred: "+cd.desc)
		ob.Houdini = cd
	}
}

// buildCandidates proposes simple inductive facts about integer loop-carried values (Houdini:
// candidates that fail entry or step are dropped and the function is re-run).
func (s *Sess) buildCandidates(li *loopInfo, phis []*ssa.Phi, entryVals map[*ssa.Phi]Val) {
	li.cands = nil
	add := func(desc string, f func(func(*ssa.Phi) Val) string) {
		key := fmt.Sprintf("%d:%s", li.ordinal, desc)
		if s.deadCands[key] {
			return
		}
		li.cands = append(li.cands, &houdiniCand{desc: desc, expr: f, alive: true, loop: li})
	}
	for _, phi := range phis {
		phi := phi
		if !isInteger(phi.Type()) {
			continue
		}
		// find the back-edge value: phi + c ?
		var step int64
		known := false
		for i, p := range li.header.Preds {
			if !li.header.Dominates(p) {
				continue
			}
			if bo, ok := phi.Edges[i].(*ssa.BinOp); ok && (bo.Op == token.ADD || bo.Op == token.SUB) && bo.X == phi {
				if c, ok := bo.Y.(*ssa.Const); ok && c.Value != nil {
					n := c.Int64()
					if bo.Op == token.SUB {
						n = -n
					}
					if !known || step == n {
						step, known = n, true
						continue
					}
				}
			}
			known = false
			break
		}
		ev := entryVals[phi]
		if known && step > 0 {
			add(fmt.Sprintf("%s >= entry value", phiName(phi)), func(pv func(*ssa.Phi) Val) string {
				return fmt.Sprintf("(>= %s %s)", pv(phi).t, ev.t)
			})
		}
		if known && step < 0 {
			add(fmt.Sprintf("%s <= entry value", phiName(phi)), func(pv func(*ssa.Phi) Val) string {
				return fmt.Sprintf("(<= %s %s)", pv(phi).t, ev.t)
			})
		}
		// range loops: index < len on the back edge
		if phi.Comment == "rangeindex" {
			// the header computes t = phi+1; if t < n goto body. Find n.
			for _, in := range li.header.Instrs {
				if bo, ok := in.(*ssa.BinOp); ok && bo.Op == token.LSS {
					if inc, ok := bo.X.(*ssa.BinOp); ok && inc.X == phi {
						n := bo.Y
						if ni, ok := n.(ssa.Instruction); ok && li.blocks[ni.Block()] {
							continue
						}
						add(fmt.Sprintf("%s < len", phiName(phi)), func(pv func(*ssa.Phi) Val) string {
							return fmt.Sprintf("(and (<= (- 1) %s) (or (< %s %s) (= %s (- 1))))", pv(phi).t, pv(phi).t, s.val(n).t, pv(phi).t)
						})
					}
				}
			}
		}
	}
	// slices that only grow by append keep len >= entry len
	for _, phi := range phis {
		phi := phi
		if _, ok := phi.Type().Underlying().(*types.Slice); !ok {
			continue
		}
		ev := entryVals[phi]
		add(fmt.Sprintf("len(%s) >= entry len", phiName(phi)), func(pv func(*ssa.Phi) Val) string {
			return fmt.Sprintf("(>= (s.len %s) (s.len %s))", pv(phi).t, ev.t)
		})
	}
}

func phiName(p *ssa.Phi) string {
	if p.Comment != "" {
		return p.Comment
	}
	return p.Name()
}

var _ = strings.TrimSpace
