package main

import (
	"fmt"
	"go/ast"
	"go/constant"
	"go/token"
	"go/types"
	"os"
	"path/filepath"
	"sort"
	"strings"

	"golang.org/x/tools/go/packages"
	"golang.org/x/tools/go/ssa"
	"golang.org/x/tools/go/ssa/ssautil"
)

const repoMod = "github.com/pentops/j5"

type Engine struct {
	immutable map[string]bool // write-once field regions (computeImmutable)
	fset   *token.FileSet
	prog   *ssa.Program
	pkgs   map[string]*packages.Package
	ssaPkg map[string]*ssa.Package
	cs     *ContractSet
	modCache map[*ssa.Function]map[string]bool
	typeByKey map[string]types.Type
	nilcheckAll bool
	parsedOptions bool // descriptor options read here were normalised by protodesc: a set oneof arm holds a message
	globals map[*types.Var]*ssa.Global
	implCache map[string][]*ssa.Function
	repoDir string
	namedTypes []types.Type
	exts map[*types.Var]*extInfo
	ctCache map[*ssa.Function]*Contract
	lemmaProved map[string]bool
}

func isRepoPath(p string) bool { return p == repoMod || strings.HasPrefix(p, repoMod+"/") }

func LoadEngine(repoDir string, patterns []string, specDir string) (*Engine, error) {
	cfg := &packages.Config{
		Mode:       packages.NeedName | packages.NeedFiles | packages.NeedCompiledGoFiles | packages.NeedImports | packages.NeedDeps | packages.NeedTypes | packages.NeedSyntax | packages.NeedTypesInfo | packages.NeedTypesSizes | packages.NeedModule,
		Dir:        repoDir,
		BuildFlags: []string{"-tags=verif"},
		Tests:      false,
	}
	pk, err := packages.Load(cfg, patterns...)
	if err != nil {
		return nil, err
	}
	nerr := 0
	packages.Visit(pk, nil, func(p *packages.Package) {
		for _, e := range p.Errors {
			if isRepoPath(p.PkgPath) {
				fmt.Fprintf(os.Stderr, "load error %s: %v\n", p.PkgPath, e)
				nerr++
			}
		}
	})
	if nerr > 0 {
		return nil, fmt.Errorf("%d package load errors", nerr)
	}
	prog, _ := ssautil.AllPackages(pk, ssa.InstantiateGenerics|ssa.GlobalDebug)
	prog.Build()
	e := &Engine{fset: prog.Fset, prog: prog, pkgs: map[string]*packages.Package{}, ssaPkg: map[string]*ssa.Package{}, cs: NewContractSet(),
		modCache: map[*ssa.Function]map[string]bool{}, typeByKey: map[string]types.Type{}, globals: map[*types.Var]*ssa.Global{}, implCache: map[string][]*ssa.Function{}, repoDir: repoDir, ctCache: map[*ssa.Function]*Contract{}}
	packages.Visit(pk, nil, func(p *packages.Package) {
		e.pkgs[p.PkgPath] = p
	})
	for _, sp := range prog.AllPackages() {
		e.ssaPkg[sp.Pkg.Path()] = sp
		for _, m := range sp.Members {
			switch m := m.(type) {
			case *ssa.Global:
				if v, ok := m.Object().(*types.Var); ok {
					e.globals[v] = m
				}
			case *ssa.Type:
				T := m.Type()
				e.typeByKey[typeKey(T)] = T
				e.typeByKey[typeKey(types.NewPointer(T))] = types.NewPointer(T)
				if isRepoPath(sp.Pkg.Path()) {
					e.namedTypes = append(e.namedTypes, T)
				}
			}
		}
	}
	e.computeImmutable()
	// contracts: every zz_verif_contracts*.go in loaded repo packages, plus spec files
	for path, p := range e.pkgs {
		if !isRepoPath(path) {
			continue
		}
		for _, f := range p.CompiledGoFiles {
			if strings.HasPrefix(filepath.Base(f), "zz_verif_contracts") {
				if err := e.cs.LoadFile(f, path, false); err != nil {
					return nil, err
				}
			}
		}
	}
	if specDir != "" {
		specs, _ := filepath.Glob(filepath.Join(specDir, "*.spec"))
		sort.Strings(specs)
		for _, f := range specs {
			if err := e.cs.LoadFile(f, "", true); err != nil {
				return nil, err
			}
		}
	}
	e.loadExtensions()
	for _, sf := range e.cs.Specs {
		if sf.Ghost {
			T, err := e.resolveTypeText(sf.Ret, sf.Pkg, e.cs.Imports[sf.File])
			if err != nil {
				return nil, fmt.Errorf("ghost %s: %v", sf.Name, err)
			}
			ghostRegion(sf.Name, T)
		}
	}
	return e, nil
}

func (e *Engine) typesPkg(path string) *types.Package {
	if p, ok := e.pkgs[path]; ok {
		return p.Types
	}
	return nil
}

func (e *Engine) typesPkgByName(name string) *types.Package {
	var found *types.Package
	for _, p := range e.pkgs {
		if p.Types != nil && p.Types.Name() == name {
			if found != nil && found != p.Types {
				// ambiguous: prefer stdlib (no dot in first path element)
				if strings.Contains(strings.Split(found.Path(), "/")[0], ".") && !strings.Contains(strings.Split(p.Types.Path(), "/")[0], ".") {
					found = p.Types
				}
				continue
			}
			found = p.Types
		}
	}
	return found
}

func (e *Engine) globalFor(v *types.Var) *ssa.Global { return e.globals[v] }

func (e *Engine) fileImports(fn *ssa.Function) map[string]string {
	for fn.Parent() != nil {
		fn = fn.Parent()
	}
	out := map[string]string{}
	if fn.Pkg == nil {
		return out
	}
	p := e.pkgs[fn.Pkg.Pkg.Path()]
	if p == nil {
		return out
	}
	var file *ast.File
	for _, f := range p.Syntax {
		if f.Pos() <= fn.Pos() && fn.Pos() <= f.End() {
			file = f
		}
	}
	if file == nil {
		return out
	}
	for _, im := range file.Imports {
		path := strings.Trim(im.Path.Value, `"`)
		name := ""
		if im.Name != nil {
			name = im.Name.Name
		} else if tp := e.typesPkg(path); tp != nil {
			name = tp.Name()
		} else {
			name = filepath.Base(path)
		}
		out[name] = path
	}
	return out
}

func (e *Engine) fnKey(fn *ssa.Function) (pkg, rel string) {
	if o := fn.Origin(); o != nil {
		fn = o
	}
	root := fn
	for root.Parent() != nil {
		root = root.Parent()
	}
	if root.Pkg != nil {
		pkg = root.Pkg.Pkg.Path()
		rel = fn.RelString(root.Pkg.Pkg)
	} else {
		rel = fn.String()
		if recv := root.Signature.Recv(); recv != nil {
			T := recv.Type()
			if p, ok := T.(*types.Pointer); ok {
				T = p.Elem()
			}
			if n, ok := T.(*types.Named); ok && n.Obj().Pkg() != nil {
				pkg = n.Obj().Pkg().Path()
			}
		}
	}
	return
}

func (e *Engine) fnShort(fn *ssa.Function) string {
	pkg, rel := e.fnKey(fn)
	return filepath.Base(pkg) + "." + rel
}

func (e *Engine) contractFor(fn *ssa.Function) *Contract {
	if fn == nil {
		return nil
	}
	if c, ok := e.ctCache[fn]; ok {
		return c
	}
	c := e.contractFor0(fn)
	c = e.withTypeInv(fn, c)
	c = e.withIfaceContracts(fn, c)
	e.ctCache[fn] = c
	return c
}

// typeInvsFor returns the invariants declared for a (pointer to a) named repository type.
func (e *Engine) typeInvsFor(T types.Type) []*TypeInv {
	name, pkg := "", ""
	if p, ok := T.(*types.Pointer); ok {
		if n, ok := p.Elem().(*types.Named); ok && n.Obj().Pkg() != nil {
			name, pkg = "*"+n.Obj().Name(), n.Obj().Pkg().Path()
		}
	} else if n, ok := T.(*types.Named); ok && n.Obj().Pkg() != nil {
		name, pkg = n.Obj().Name(), n.Obj().Pkg().Path()
	}
	if name == "" {
		return nil
	}
	var invs []*TypeInv
	for _, ti := range e.cs.TypeInvs {
		if ti.Pkg == pkg && ti.Type == name {
			invs = append(invs, ti)
		}
	}
	return invs
}

// withTypeInv adds the receiver type's invariant as requires and ensures of a method.
func (e *Engine) withTypeInv(fn *ssa.Function, c *Contract) *Contract {
	if len(e.cs.TypeInvs) == 0 || fn.Signature.Recv() == nil || fn.Parent() != nil {
		return c
	}
	if c != nil && c.Opts["noinvariant"] != "" {
		return c
	}
	pkg, _ := e.fnKey(fn)
	rt := fn.Signature.Recv().Type()
	name := ""
	if p, ok := rt.(*types.Pointer); ok {
		if n, ok := p.Elem().(*types.Named); ok {
			name = "*" + n.Obj().Name()
		}
	} else if n, ok := rt.(*types.Named); ok {
		name = n.Obj().Name()
	}
	var invs []*TypeInv
	for _, ti := range e.cs.TypeInvs {
		if ti.Pkg == pkg && ti.Type == name {
			invs = append(invs, ti)
		}
	}
	if len(invs) == 0 {
		return c
	}
	var n Contract
	if c != nil {
		n = *c
	} else {
		_, rel := e.fnKey(fn)
		n = Contract{Func: rel, Pkg: pkg, Loops: map[int]*LoopSpec{}, Opts: map[string]string{}, File: invs[0].C.File, Line: invs[0].C.Line, Synth: true}
	}
	n.Requires = append([]*Clause{}, n.Requires...)
	n.Ensures = append([]*Clause{}, n.Ensures...)
	for i, ti := range invs {
		rc := *ti.C
		rc.Label = fmt.Sprintf("typeinv%d", i)
		n.Requires = append([]*Clause{&rc}, n.Requires...)
		ec := *ti.C
		ec.Label = fmt.Sprintf("typeinv%d", i)
		n.Ensures = append(n.Ensures, &ec)
	}
	return &n
}

// withIfaceContracts: a method that implements an in-repo interface method under contract must
// satisfy that contract's postconditions (callers reason with the interface contract only).
func (e *Engine) withIfaceContracts(fn *ssa.Function, c *Contract) *Contract {
	if fn.Signature.Recv() == nil || fn.Parent() != nil {
		return c
	}
	rt := fn.Signature.Recv().Type()
	var extra []*Clause
	for key, ic := range e.cs.Funcs {
		if ic.Trusted || ic.Pkg == "" || len(ic.Ensures) == 0 || ic.Opts["assumed"] != "" {
			continue // an assumed interface contract defines an abstraction; implementers are not checked against it
		}
		// key: pkg::(Iface).Method
		i := strings.Index(key, "::(")
		if i < 0 || !strings.HasSuffix(key, ")."+fn.Name()) {
			continue
		}
		ifaceName := key[i+3 : len(key)-len(")."+fn.Name())]
		if strings.HasPrefix(ifaceName, "*") {
			continue
		}
		tp := e.typesPkg(key[:i])
		if tp == nil {
			continue
		}
		obj := tp.Scope().Lookup(ifaceName)
		if obj == nil {
			continue
		}
		it, ok := obj.Type().Underlying().(*types.Interface)
		if !ok || !types.Implements(rt, it) {
			continue
		}
		for _, en := range ic.Ensures {
			cl := *en
			cl.Label = "iface." + ifaceName + "." + labelOr(en.Label, len(extra))
			extra = append(extra, &cl)
		}
	}
	if len(extra) == 0 {
		return c
	}
	var n Contract
	if c != nil {
		n = *c
	} else {
		pkg, rel := e.fnKey(fn)
		n = Contract{Func: rel, Pkg: pkg, Loops: map[int]*LoopSpec{}, Opts: map[string]string{}, Synth: true, File: extra[0].File, Line: extra[0].Line}
	}
	n.Ensures = append(append([]*Clause{}, n.Ensures...), extra...)
	n.IfaceRecv = true
	return &n
}

func (e *Engine) contractFor0(fn *ssa.Function) *Contract {
	if fn == nil {
		return nil
	}
	pkg, rel := e.fnKey(fn)
	if c, ok := e.cs.Funcs[pkg+"::"+rel]; ok {
		return c
	}
	full := fn.String()
	if o := fn.Origin(); o != nil {
		full = o.String()
	}
	if c, ok := e.cs.Funcs[full]; ok {
		return c
	}
	return nil
}

func (e *Engine) contractForMethod(m *types.Func) *Contract {
	full := m.FullName()
	if c, ok := e.cs.Funcs[full]; ok {
		return c
	}
	if m.Pkg() != nil {
		// in-repo style: pkg::(Iface).Method
		recv := m.Type().(*types.Signature).Recv()
		if recv != nil {
			if n, ok := recv.Type().(*types.Named); ok {
				if c, ok := e.cs.Funcs[m.Pkg().Path()+"::("+n.Obj().Name()+")."+m.Name()]; ok {
					return c
				}
			}
		}
	}
	return nil
}

func (e *Engine) calleeName(com *ssa.CallCommon) string {
	if com.IsInvoke() {
		return com.Method.FullName()
	}
	if b, ok := com.Value.(*ssa.Builtin); ok {
		return "builtin." + b.Name()
	}
	if f := com.StaticCallee(); f != nil {
		if o := f.Origin(); o != nil {
			f = o
		}
		return f.String()
	}
	return "dynamic"
}

// FindFunc resolves "pkgpath::rel" to an SSA function.
func (e *Engine) FindFunc(pkg, rel string) *ssa.Function {
	sp := e.ssaPkg[pkg]
	if sp == nil {
		return nil
	}
	var found *ssa.Function
	var visit func(fn *ssa.Function)
	visit = func(fn *ssa.Function) {
		if fn.RelString(sp.Pkg) == rel {
			found = fn
		}
		for _, a := range fn.AnonFuncs {
			visit(a)
		}
	}
	for _, m := range sp.Members {
		switch m := m.(type) {
		case *ssa.Function:
			visit(m)
		case *ssa.Type:
			for _, T := range []types.Type{m.Type(), types.NewPointer(m.Type())} {
				ms := e.prog.MethodSets.MethodSet(T)
				for i := 0; i < ms.Len(); i++ {
					if fn := e.prog.MethodValue(ms.At(i)); fn != nil && fn.Pkg == sp && fn.Synthetic == "" {
						visit(fn)
					}
				}
			}
		}
	}
	return found
}

func (e *Engine) AllFuncs(pkg string) []*ssa.Function {
	sp := e.ssaPkg[pkg]
	if sp == nil {
		return nil
	}
	seen := map[*ssa.Function]bool{}
	var out []*ssa.Function
	var visit func(fn *ssa.Function)
	visit = func(fn *ssa.Function) {
		if seen[fn] || fn.Blocks == nil {
			return
		}
		seen[fn] = true
		out = append(out, fn)
		for _, a := range fn.AnonFuncs {
			visit(a)
		}
	}
	for _, m := range sp.Members {
		switch m := m.(type) {
		case *ssa.Function:
			if m.Synthetic == "" {
				visit(m)
			}
		case *ssa.Type:
			for _, T := range []types.Type{m.Type(), types.NewPointer(m.Type())} {
				ms := e.prog.MethodSets.MethodSet(T)
				for i := 0; i < ms.Len(); i++ {
					if fn := e.prog.MethodValue(ms.At(i)); fn != nil && fn.Pkg == sp && fn.Synthetic == "" {
						visit(fn)
					}
				}
			}
		}
	}
	sort.Slice(out, func(i, j int) bool { return out[i].Pos() < out[j].Pos() })
	return out
}

func (e *Engine) declareSpecFuncs(s *Sess) {
	s.emitDecl(strings.TrimSpace(goDivDefs))
}

// ---------------------------------------------------------------------------------------------
// mod-set analysis: which heap regions may a function write? value true = objects that existed
// before the call may be written; false = only objects the function allocated itself.

func leafRegions(T types.Type, into map[string]bool, old bool) {
	st, ok := T.Underlying().(*types.Struct)
	if !ok {
		return
	}
	for i := 0; i < st.NumFields(); i++ {
		f := st.Field(i)
		switch u := f.Type().Underlying().(type) {
		case *types.Struct:
			leafRegions(f.Type(), into, old)
		case *types.Array:
			addMod(into, elemRegion(u.Elem()), old)
		default:
			addMod(into, fieldRegion(T, f, i), old)
		}
	}
}

func addMod(into map[string]bool, k string, old bool) {
	if cur, ok := into[k]; ok {
		into[k] = cur || old
	} else {
		into[k] = old
	}
}

func ptrKind(v ssa.Value) (isPlace bool, region string) {
	switch x := v.(type) {
	case *ssa.FieldAddr:
		if p, r := ptrKind(x.X); p {
			return true, r
		}
		T := derefType(x.X.Type())
		st, _ := isStruct(T)
		f := st.Field(x.Field)
		switch f.Type().Underlying().(type) {
		case *types.Struct, *types.Array:
			return false, ""
		}
		return true, fieldRegion(T, f, x.Field)
	case *ssa.IndexAddr:
		switch u := x.X.Type().Underlying().(type) {
		case *types.Slice:
			return true, elemRegion(u.Elem())
		case *types.Pointer:
			if p, r := ptrKind(x.X); p {
				return true, r
			}
			if a, ok := u.Elem().Underlying().(*types.Array); ok {
				return true, elemRegion(a.Elem())
			}
			return false, "" // pointer to a type-parameter array in an uninstantiated generic body
		}
	}
	return false, ""
}

func rootOf(v ssa.Value) ssa.Value {
	for {
		switch x := v.(type) {
		case *ssa.FieldAddr:
			v = x.X
		case *ssa.IndexAddr:
			v = x.X
		case *ssa.Slice:
			v = x.X
		case *ssa.ChangeType:
			v = x.X
		default:
			return v
		}
	}
}

func isFreshRoot(v ssa.Value, scope map[*ssa.BasicBlock]bool) bool {
	r := rootOf(v)
	switch x := r.(type) {
	case *ssa.Alloc:
		return scope == nil || scope[x.Block()]
	case *ssa.MakeSlice:
		return scope == nil || scope[x.Block()]
	case *ssa.MakeMap:
		return scope == nil || scope[x.Block()]
	}
	return false
}

func (e *Engine) instrMods(fn *ssa.Function, in ssa.Instruction, into map[string]bool, scope map[*ssa.BasicBlock]bool) {
	switch x := in.(type) {
	case *ssa.Store:
		old := !isFreshRoot(x.Addr, scope)
		if p, r := ptrKind(x.Addr); p {
			addMod(into, r, old)
			return
		}
		T := derefType(x.Addr.Type())
		switch u := T.Underlying().(type) {
		case *types.Struct:
			leafRegions(T, into, old)
		case *types.Array:
			addMod(into, elemRegion(u.Elem()), old)
		default:
			addMod(into, cellRegion(T), old)
		}
	case *ssa.Alloc:
		T := derefType(x.Type())
		switch u := T.Underlying().(type) {
		case *types.Struct:
			leafRegions(T, into, false)
		case *types.Array:
			addMod(into, elemRegion(u.Elem()), false)
		default:
			addMod(into, cellRegion(T), false)
		}
	case *ssa.MakeSlice:
		addMod(into, elemRegion(x.Type().Underlying().(*types.Slice).Elem()), false)
	case *ssa.MakeMap:
		addMod(into, mapHasRegion(x.Type().Underlying().(*types.Map)), false)
	case *ssa.MapUpdate:
		m := x.Map.Type().Underlying().(*types.Map)
		old := !isFreshRoot(x.Map, scope)
		addMod(into, mapRegion(m), old)
		addMod(into, mapHasRegion(m), old)
	case *ssa.Convert:
		if sl, ok := x.Type().Underlying().(*types.Slice); ok && isString(x.X.Type()) {
			addMod(into, elemRegion(sl.Elem()), false)
		}
	case *ssa.Range:
		addMod(into, "C:$iterpos", false)
	case *ssa.Next:
		addMod(into, "C:$iterpos", true)
	case ssa.CallInstruction:
		com := x.Common()
		if f := com.StaticCallee(); f != nil && !com.IsInvoke() {
			switch f.String() {
			case "google.golang.org/protobuf/proto.SetExtension", "google.golang.org/protobuf/proto.ClearExtension":
				if info := e.extOfArg(com.Args[1]); info != nil {
					addMod(into, extRegion(info), true)
				} else {
					addMod(into, "*", true)
				}
				return
			case "google.golang.org/protobuf/proto.GetExtension", "google.golang.org/protobuf/proto.HasExtension":
				return
			}
		}
		if b, ok := com.Value.(*ssa.Builtin); ok {
			switch b.Name() {
			case "append", "copy":
				if sl, ok := com.Args[0].Type().Underlying().(*types.Slice); ok {
					// writes land in the destination's backing array (or, for append, a new one): fresh when
					// the destination was made by this function
					addMod(into, elemRegion(sl.Elem()), !isFreshRoot(com.Args[0], scope))
				}
			case "delete":
				addMod(into, mapHasRegion(com.Args[0].Type().Underlying().(*types.Map)), true)
			}
			return
		}
		for k, v := range e.comMods(fn, com) {
			addMod(into, k, v)
		}
	}
}

// comMods: mod set of a call as seen from inside fn (closure arguments resolved when static).
func (e *Engine) comMods(fn *ssa.Function, com *ssa.CallCommon) map[string]bool {
	out := map[string]bool{}
	if f := com.StaticCallee(); f != nil && !com.IsInvoke() {
		switch f.String() {
		case "google.golang.org/protobuf/proto.SetExtension", "google.golang.org/protobuf/proto.ClearExtension":
			if info := e.extOfArg(com.Args[1]); info != nil {
				addMod(out, extRegion(info), true)
			} else {
				addMod(out, "*", true)
			}
			return out
		case "google.golang.org/protobuf/proto.GetExtension", "google.golang.org/protobuf/proto.HasExtension":
			return out
		}
	}
	var ct *Contract
	var callee *ssa.Function
	if com.IsInvoke() {
		ct = e.contractForMethod(com.Method)
	} else {
		callee = com.StaticCallee()
		ct = e.contractFor(callee)
	}
	if ct != nil && (ct.Pure || ct.Modifies != nil) {
		e.contractMods(ct, com, out)
		return out
	}
	expandDyn := func(m map[string]bool) {
		for k, v := range m {
			if k == "$dyn" {
				// closures passed as arguments
				for _, a := range com.Args {
					if _, ok := a.Type().Underlying().(*types.Signature); !ok {
						continue
					}
					a = stripChange(a)
					switch f := a.(type) {
					case *ssa.MakeClosure:
						for k2, v2 := range e.modOf(f.Fn.(*ssa.Function)) {
							addMod(out, k2, v2)
						}
					case *ssa.Function:
						for k2, v2 := range e.modOf(f) {
							addMod(out, k2, v2)
						}
					case *ssa.Parameter, *ssa.FreeVar:
						addMod(out, "$dyn", true)
					case *ssa.Const:
					default:
						addMod(out, "*", true)
					}
				}
				continue
			}
			addMod(out, k, v)
		}
	}
	// a callee handed one of our closures/functions may call it: its effects are the call's effects
	addFuncArgs := func() {
		for _, a := range com.Args {
			if _, ok := a.Type().Underlying().(*types.Signature); !ok {
				continue
			}
			switch f := stripChange(a).(type) {
			case *ssa.MakeClosure:
				for k2, v2 := range e.modOf(f.Fn.(*ssa.Function)) {
					addMod(out, k2, v2)
				}
			case *ssa.Function:
				for k2, v2 := range e.modOf(f) {
					addMod(out, k2, v2)
				}
			case *ssa.Parameter, *ssa.FreeVar:
				addMod(out, "$dyn", true)
			case *ssa.Const:
			default:
				addMod(out, "*", true)
			}
		}
	}
	switch {
	case com.IsInvoke():
		addFuncArgs()
		impls := e.implementers(com.Method)
		for _, f := range impls {
			expandDyn(e.modOf(f))
		}
		if com.Method.Pkg() == nil || !isRepoPath(com.Method.Pkg().Path()) {
			// method of an interface declared outside the repository: in-repo implementers are
			// covered above; an external implementer can reach only what its arguments reach
			if !e.knownPureMethod(com.Method) {
				for _, a := range com.Args {
					e.typeReach(a.Type(), out, map[string]bool{}, 0)
				}
			}
		}
	case callee != nil:
		if callee.Blocks != nil && e.inRepo(callee) {
			expandDyn(e.modOf(callee))
		} else {
			e.externalMods(callee, com, out)
			addFuncArgs()
		}
	default:
		v := stripChange(com.Value)
		switch f := v.(type) {
		case *ssa.MakeClosure:
			expandDyn(e.modOf(f.Fn.(*ssa.Function)))
		case *ssa.Parameter, *ssa.FreeVar:
			addMod(out, "$dyn", true)
		default:
			addMod(out, "*", true)
		}
	}
	return out
}

func stripChange(v ssa.Value) ssa.Value {
	for {
		if c, ok := v.(*ssa.ChangeType); ok {
			v = c.X
			continue
		}
		return v
	}
}

func (e *Engine) inRepo(fn *ssa.Function) bool {
	pkg, _ := e.fnKey(fn)
	return isRepoPath(pkg)
}

func (e *Engine) knownPureMethod(m *types.Func) bool {
	switch m.FullName() {
	case "(error).Error":
		return true
	}
	return false
}

func (e *Engine) contractMods(ct *Contract, com *ssa.CallCommon, out map[string]bool) {
	if ct.Pure {
		return
	}
	for _, m := range ct.Modifies {
		if m == "nothing" {
			continue
		}
		if m == "args" {
			for _, a := range com.Args {
				e.typeReach(a.Type(), out, map[string]bool{}, 0)
			}
			if com.IsInvoke() {
				addMod(out, "*", true)
			}
			continue
		}
		if strings.HasPrefix(m, "arg") {
			var k int
			fmt.Sscanf(m, "arg%d", &k)
			all := com.Args
			if k < len(all) {
				e.typeReach(all[k].Type(), out, map[string]bool{}, 0)
			}
			continue
		}
		if m == "fresh:result" {
			// a new cell of the result's pointee type is allocated and initialised
			res := com.Signature().Results()
			for i := 0; i < res.Len(); i++ {
				if pt, ok := res.At(i).Type().Underlying().(*types.Pointer); ok {
					switch u := pt.Elem().Underlying().(type) {
					case *types.Struct:
						leafRegions(pt.Elem(), out, false)
					case *types.Array:
						addMod(out, elemRegion(u.Elem()), false)
					default:
						addMod(out, cellRegion(pt.Elem()), false)
					}
				}
			}
			continue
		}
		if strings.HasPrefix(m, "ghost:") {
			m = "G:" + strings.TrimPrefix(m, "ghost:")
		}
		addMod(out, m, true)
	}
}

// externalMods: default frame of a function outside the repository without a spec: whatever is
// reachable from its arguments by type.
func (e *Engine) externalMods(callee *ssa.Function, com *ssa.CallCommon, out map[string]bool) {
	for _, a := range com.Args {
		e.typeReach(a.Type(), out, map[string]bool{}, 0)
	}
}

func (e *Engine) typeReach(T types.Type, out map[string]bool, seen map[string]bool, depth int) {
	k := typeKey(T)
	if seen[k] || depth > 6 {
		return
	}
	seen[k] = true
	switch u := T.Underlying().(type) {
	case *types.Pointer:
		switch el := u.Elem().Underlying().(type) {
		case *types.Struct:
			leafRegions(u.Elem(), out, true)
			for i := 0; i < el.NumFields(); i++ {
				e.typeReach(el.Field(i).Type(), out, seen, depth+1)
			}
		case *types.Array:
			addMod(out, elemRegion(el.Elem()), true)
			e.typeReach(el.Elem(), out, seen, depth+1)
		default:
			addMod(out, cellRegion(u.Elem()), true)
			e.typeReach(u.Elem(), out, seen, depth+1)
		}
	case *types.Slice:
		addMod(out, elemRegion(u.Elem()), true)
		e.typeReach(u.Elem(), out, seen, depth+1)
	case *types.Map:
		addMod(out, mapRegion(u), true)
		addMod(out, mapHasRegion(u), true)
		e.typeReach(u.Elem(), out, seen, depth+1)
	case *types.Struct:
		for i := 0; i < u.NumFields(); i++ {
			e.typeReach(u.Field(i).Type(), out, seen, depth+1)
		}
	case *types.Interface, *types.Signature:
		// stated assumption: a library function without a spec does not mutate repository-visible
		// memory through interface or function values (only through what it reaches by static type)
	}
}

func (e *Engine) implementers(m *types.Func) []*ssa.Function {
	key := m.FullName()
	if r, ok := e.implCache[key]; ok {
		return r
	}
	recv := m.Type().(*types.Signature).Recv()
	var out []*ssa.Function
	if recv != nil {
		iface, _ := recv.Type().Underlying().(*types.Interface)
		if iface != nil {
			for _, T := range e.namedTypes {
				if _, isI := T.Underlying().(*types.Interface); isI {
					continue
				}
				for _, TT := range []types.Type{T, types.NewPointer(T)} {
					if types.Implements(TT, iface) {
						ms := e.prog.MethodSets.MethodSet(TT)
						if sel := ms.Lookup(m.Pkg(), m.Name()); sel != nil {
							if fn := e.prog.MethodValue(sel); fn != nil {
								out = append(out, fn)
							}
						}
						break
					}
				}
			}
		}
	}
	e.implCache[key] = out
	return out
}

func (e *Engine) directMods(fn *ssa.Function) map[string]bool {
	out := map[string]bool{}
	for _, b := range fn.Blocks {
		for _, in := range b.Instrs {
			if _, isCall := in.(ssa.CallInstruction); isCall {
				if _, isB := in.(ssa.CallInstruction).Common().Value.(*ssa.Builtin); !isB {
					continue
				}
			}
			e.instrMods(fn, in, out, nil)
		}
	}
	return out
}

// modOf computes the transitive mod set by global fixpoint over the functions reachable from fn.
func (e *Engine) modOf(fn *ssa.Function) map[string]bool {
	if m, ok := e.modCache[fn]; ok {
		return m
	}
	// collect reachable set
	var order []*ssa.Function
	seen := map[*ssa.Function]bool{}
	var visit func(f *ssa.Function)
	visit = func(f *ssa.Function) {
		if seen[f] {
			return
		}
		if _, done := e.modCache[f]; done {
			return
		}
		seen[f] = true
		order = append(order, f)
		if f.Synthetic != "" && f.Blocks == nil {
			return
		}
		for _, b := range f.Blocks {
			for _, in := range b.Instrs {
				ci, ok := in.(ssa.CallInstruction)
				if !ok {
					continue
				}
				com := ci.Common()
				if _, isB := com.Value.(*ssa.Builtin); isB {
					continue
				}
				var ct *Contract
				if com.IsInvoke() {
					ct = e.contractForMethod(com.Method)
				} else {
					ct = e.contractFor(com.StaticCallee())
				}
				if ct != nil && (ct.Pure || ct.Modifies != nil) {
					continue
				}
				for _, t := range e.callTargets(com) {
					visit(t)
				}
			}
		}
	}
	visit(fn)
	for _, f := range order {
		e.modCache[f] = e.directMods(f)
	}
	for changed := true; changed; {
		changed = false
		for _, f := range order {
			cur := e.modCache[f]
			for _, b := range f.Blocks {
				for _, in := range b.Instrs {
					ci, ok := in.(ssa.CallInstruction)
					if !ok {
						continue
					}
					if _, isB := ci.Common().Value.(*ssa.Builtin); isB {
						continue
					}
					for k, v := range e.comMods(f, ci.Common()) {
						if old, ok := cur[k]; !ok || (v && !old) {
							cur[k] = v || old
							changed = true
						}
					}
				}
			}
		}
	}
	return e.modCache[fn]
}

func (e *Engine) callTargets(com *ssa.CallCommon) []*ssa.Function {
	var out []*ssa.Function
	add := func(f *ssa.Function) {
		if f != nil && f.Blocks != nil && e.inRepo(f) {
			out = append(out, f)
		}
	}
	if com.IsInvoke() {
		for _, f := range e.implementers(com.Method) {
			add(f)
		}
	} else if f := com.StaticCallee(); f != nil {
		add(f)
	} else if mc, ok := stripChange(com.Value).(*ssa.MakeClosure); ok {
		add(mc.Fn.(*ssa.Function))
	}
	for _, a := range com.Args {
		switch f := stripChange(a).(type) {
		case *ssa.MakeClosure:
			add(f.Fn.(*ssa.Function))
		case *ssa.Function:
			add(f)
		}
	}
	return out
}

// callMods is what a call site in session s havocs.
func (e *Engine) callMods(s *Sess, ct *Contract, callee *ssa.Function, com *ssa.CallCommon, args []Val) map[string]bool {
	m := e.comMods(s.fn, com)
	if m["$dyn"] {
		delete(m, "$dyn")
		m["*"] = true
	}
	if ct != nil && len(ct.FrameFresh) > 0 {
		n := map[string]bool{}
		for k, v := range m {
			n[k] = v
		}
		for _, k := range ct.FrameFresh {
			if _, ok := n[k]; ok {
				n[k] = false
			}
		}
		m = n
	}
	return m
}

// initConst returns the constant string a package-level variable is initialised with.
func (e *Engine) initConst(pkgPath, name string) (string, bool) {
	p := e.pkgs[pkgPath]
	if p == nil {
		return "", false
	}
	for _, f := range p.Syntax {
		for _, d := range f.Decls {
			gd, ok := d.(*ast.GenDecl)
			if !ok || gd.Tok != token.VAR {
				continue
			}
			for _, sp := range gd.Specs {
				vs := sp.(*ast.ValueSpec)
				for i, n := range vs.Names {
					if n.Name == name && i < len(vs.Values) {
						if tv, ok := p.TypesInfo.Types[vs.Values[i]]; ok && tv.Value != nil {
							return constantString(tv.Value)
						}
					}
				}
			}
		}
	}
	return "", false
}

func constantString(v constant.Value) (string, bool) {
	if v.Kind() != constant.String {
		return "", false
	}
	return constant.StringVal(v), true
}

// computeImmutable finds the write-once fields: fields of non-generic named struct types declared in
// the repository that cannot be named outside their package (unexported field, or unexported type)
// and that no function of the program stores to except through an allocation of the same function
// (composite literals, constructors) and whose address never escapes. A havoc of the whole heap
// keeps such a field on every object that existed before the havoc. Writes through reflection or
// unsafe are not seen (assumption).
func (e *Engine) computeImmutable() {
	written := map[string]bool{}
	for fn := range ssautil.AllFunctions(e.prog) {
		if fn.Blocks == nil {
			continue
		}
		for _, b := range fn.Blocks {
			for _, in := range b.Instrs {
				switch x := in.(type) {
				case *ssa.Store:
					if dbg := os.Getenv("GOVC_IMMUT_DEBUG"); dbg != "" {
						tmp := map[string]bool{}
						e.instrMods(fn, x, tmp, nil)
						for k, v := range tmp {
							if v && strings.Contains(k, dbg) {
								fmt.Fprintf(os.Stderr, "immut: %s written by %s at %s\n", k, fn, e.fset.Position(x.Pos()))
							}
						}
					}
					e.instrMods(fn, x, written, nil)
				case *ssa.FieldAddr:
					refs := x.Referrers()
					if refs == nil {
						continue
					}
					esc := false
					for _, r := range *refs {
						switch r := r.(type) {
						case *ssa.Store:
							if r.Val == ssa.Value(x) {
								esc = true
							}
						case *ssa.UnOp, *ssa.DebugRef:
						case *ssa.FieldAddr:
						case *ssa.IndexAddr:
						default:
							esc = true
						}
					}
					if esc {
						if dbg := os.Getenv("GOVC_IMMUT_DEBUG"); dbg != "" && strings.Contains(x.X.Type().String(), dbg) {
							fmt.Fprintf(os.Stderr, "immut: field %d of %s escapes in %s at %s\n", x.Field, x.X.Type(), fn, e.fset.Position(x.Pos()))
						}
						T := derefType(x.X.Type())
						if st, ok := isStruct(T); ok {
							f := st.Field(x.Field)
							switch u := f.Type().Underlying().(type) {
							case *types.Struct:
								// writes through the escaped pointer are stores on a field address of
								// that struct type somewhere in the program, counted there
							case *types.Array:
								addMod(written, elemRegion(u.Elem()), true)
							default:
								addMod(written, fieldRegion(T, f, x.Field), true)
							}
						}
					}
				}
			}
		}
	}
	e.immutable = map[string]bool{}
	for _, T := range e.namedTypes {
		n, ok := T.(*types.Named)
		if !ok || n.TypeParams().Len() > 0 {
			continue
		}
		st, ok := n.Underlying().(*types.Struct)
		if !ok {
			continue
		}
		for i := 0; i < st.NumFields(); i++ {
			f := st.Field(i)
			if f.Exported() && n.Obj().Exported() {
				continue
			}
			switch f.Type().Underlying().(type) {
			case *types.Struct, *types.Array:
				continue
			}
			k := fieldRegion(T, f, i)
			if !written[k] {
				e.immutable[k] = true
			}
		}
	}
}
