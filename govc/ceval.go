package main

// Typed evaluation of contract expressions to SMT terms over a heap snapshot.

import (
	"fmt"
	"go/ast"
	"go/constant"
	"go/parser"
	"go/types"
	"strings"

	"golang.org/x/tools/go/ssa"
)

type evalErr string

func efail(f string, a ...any) { panic(evalErr(fmt.Sprintf(f, a...))) }

type CEnv struct {
	s       *Sess
	vars    map[string]Val
	lookup  func(name string) (Val, bool)
	heap    *State
	old     *State
	results []Val
	resNames []string
	pkg     *types.Package
	imports map[string]string
	bound   map[string]Val
	depth   int
	assume  bool     // the formula is being assumed (not proved)
	trig    bool     // evaluating a quantifier trigger term
	pol     int      // +1 positive, -1 negative, 0 unknown polarity (only meaningful with assume)
	outer   []string // enclosing bound variable terms ("name sort" pairs) for skolem functions
	outerS  []string
}

func (c *CEnv) flip() *CEnv {
	n := *c
	n.pol = -c.pol
	return &n
}
func (c *CEnv) nopol() *CEnv {
	n := *c
	n.pol = 0
	return &n
}

func (c *CEnv) with(heap *State) *CEnv {
	n := *c
	n.heap = heap
	return &n
}

func (c *CEnv) evalBool(e *Expr) (res string, err error) {
	defer func() {
		if r := recover(); r != nil {
			if ee, ok := r.(evalErr); ok {
				err = fmt.Errorf("%s", string(ee))
				return
			}
			panic(r)
		}
	}()
	cc := *c
	cc.pol = 1
	v := cc.eval(e)
	if c.s.tc.sortOf(v.typ) != "Bool" {
		return "", fmt.Errorf("expression %s is not boolean (%s)", e, v.typ)
	}
	return v.t, nil
}

// evalAssume evaluates a formula that will be ASSUMED: universally quantified hypotheses nested
// under a quantifier are skolemised (sound: the original implies the skolemised form for some
// interpretation of the fresh function), which removes quantifier alternation.
func (c *CEnv) evalAssume(e *Expr) (string, error) {
	cc := *c
	cc.assume = true
	return cc.evalBool(e)
}

func (c *CEnv) evalVal(e *Expr) (res Val, err error) {
	defer func() {
		if r := recover(); r != nil {
			if ee, ok := r.(evalErr); ok {
				err = fmt.Errorf("%s", string(ee))
				return
			}
			panic(r)
		}
	}()
	return c.eval(e), nil
}

var tBool = types.Typ[types.Bool]
var tInt = types.Typ[types.Int]
var tString = types.Typ[types.String]
var tUInt = types.Typ[types.UntypedInt]
var tNil = types.Typ[types.UntypedNil]

func (c *CEnv) coerceNil(v Val, to types.Type) Val {
	if v.typ == tNil {
		return Val{t: c.s.tc.zero(to), typ: to}
	}
	return v
}

// resolveType turns raw Go type text into a types.Type in the scope of the contract.
func (c *CEnv) resolveType(text string) types.Type {
	ex, err := parser.ParseExpr(text)
	if err != nil {
		efail("bad type %q: %v", text, err)
	}
	return c.typeOfAst(ex)
}

// resolveTypeText resolves a type outside any session (used when loading ghost declarations).
func (e *Engine) resolveTypeText(text, pkg string, imports map[string]string) (T types.Type, err error) {
	defer func() {
		if r := recover(); r != nil {
			if ee, ok := r.(evalErr); ok {
				err = fmt.Errorf("%s", string(ee))
				return
			}
			panic(r)
		}
	}()
	c := &CEnv{s: &Sess{eng: e}, pkg: e.typesPkg(pkg), imports: imports}
	return c.resolveType(text), nil
}

func (c *CEnv) typeOfAst(ex ast.Expr) types.Type {
	switch x := ex.(type) {
	case *ast.Ident:
		if o := types.Universe.Lookup(x.Name); o != nil {
			if tn, ok := o.(*types.TypeName); ok {
				return tn.Type()
			}
		}
		if c.pkg != nil {
			if o := c.pkg.Scope().Lookup(x.Name); o != nil {
				if tn, ok := o.(*types.TypeName); ok {
					return tn.Type()
				}
			}
		}
		efail("unknown type %s", x.Name)
	case *ast.SelectorExpr:
		id, ok := x.X.(*ast.Ident)
		if !ok {
			efail("bad qualified type")
		}
		p := c.importedPkg(id.Name)
		if p == nil {
			efail("unknown package %s", id.Name)
		}
		if o := p.Scope().Lookup(x.Sel.Name); o != nil {
			if tn, ok := o.(*types.TypeName); ok {
				return tn.Type()
			}
		}
		efail("unknown type %s.%s", id.Name, x.Sel.Name)
	case *ast.StarExpr:
		return types.NewPointer(c.typeOfAst(x.X))
	case *ast.ArrayType:
		if x.Len == nil {
			return types.NewSlice(c.typeOfAst(x.Elt))
		}
		if bl, ok := x.Len.(*ast.BasicLit); ok {
			var n int64
			fmt.Sscan(bl.Value, &n)
			return types.NewArray(c.typeOfAst(x.Elt), n)
		}
	case *ast.MapType:
		return types.NewMap(c.typeOfAst(x.Key), c.typeOfAst(x.Value))
	case *ast.InterfaceType:
		return types.NewInterfaceType(nil, nil)
	case *ast.ParenExpr:
		return c.typeOfAst(x.X)
	}
	efail("unsupported type syntax")
	return nil
}

func (c *CEnv) importedPkg(alias string) *types.Package {
	if path, ok := c.imports[alias]; ok {
		return c.s.eng.typesPkg(path)
	}
	// fall back: unique package whose name is alias among the imports of c.pkg
	if c.pkg != nil {
		for _, p := range c.pkg.Imports() {
			if p.Name() == alias {
				return p
			}
		}
	}
	return c.s.eng.typesPkgByName(alias)
}

func (c *CEnv) constOf(o *types.Const) Val {
	v := o.Val()
	T := o.Type()
	switch v.Kind() {
	case constant.Bool:
		if constant.BoolVal(v) {
			return Val{t: "true", typ: T}
		}
		return Val{t: "false", typ: T}
	case constant.String:
		return Val{t: smtStr(constant.StringVal(v)), typ: T}
	case constant.Int:
		str := v.ExactString()
		if strings.HasPrefix(str, "-") {
			str = "(- " + str[1:] + ")"
		}
		return Val{t: str, typ: T}
	}
	efail("unsupported constant %s", o.Name())
	return Val{}
}

func (c *CEnv) globalOf(o *types.Var) Val {
	g := c.s.eng.globalFor(o)
	if g == nil {
		efail("no global for %s", o.Name())
	}
	gv := c.s.val(g)
	T := o.Type()
	return Val{t: c.s.load(c.heap, gv, T), typ: T}
}

func (c *CEnv) ident(name string) Val {
	if v, ok := c.bound[name]; ok {
		return v
	}
	if v, ok := c.vars[name]; ok {
		return v
	}
	if c.lookup != nil {
		if v, ok := c.lookup(name); ok {
			return v
		}
	}
	if name == "result" && len(c.results) >= 1 {
		return c.results[0]
	}
	if strings.HasPrefix(name, "result") {
		var k int
		if _, err := fmt.Sscanf(name, "result%d", &k); err == nil && k < len(c.results) {
			return c.results[k]
		}
	}
	for i, n := range c.resNames {
		if n == name && i < len(c.results) {
			return c.results[i]
		}
	}
	if c.pkg != nil {
		if o := c.pkg.Scope().Lookup(name); o != nil {
			switch o := o.(type) {
			case *types.Const:
				return c.constOf(o)
			case *types.Var:
				return c.globalOf(o)
			}
		}
	}
	efail("unknown identifier %s", name)
	return Val{}
}

func (c *CEnv) fieldOf(v Val, name string) Val {
	T := v.typ
	isPtr := false
	if p, ok := T.Underlying().(*types.Pointer); ok {
		T = p.Elem()
		isPtr = true
	}
	obj, index, _ := types.LookupFieldOrMethod(T, true, nil, name)
	if obj == nil && c.pkg != nil {
		obj, index, _ = types.LookupFieldOrMethod(T, true, c.pkg, name)
	}
	if obj == nil {
		// unexported field of another package: search by name
		if st, ok := T.Underlying().(*types.Struct); ok {
			for i := 0; i < st.NumFields(); i++ {
				if st.Field(i).Name() == name {
					obj = st.Field(i)
					index = []int{i}
				}
			}
		}
	}
	fv, ok := obj.(*types.Var)
	if !ok || fv == nil {
		efail("no field %s in %s", name, v.typ)
	}
	cur := v
	curT := T
	for _, i := range index {
		st, ok := curT.Underlying().(*types.Struct)
		if !ok {
			// embedded pointer
			if p, ok2 := curT.Underlying().(*types.Pointer); ok2 {
				curT = p.Elem()
				st = curT.Underlying().(*types.Struct)
				isPtr = true
			} else {
				efail("bad field path")
			}
		}
		f := st.Field(i)
		if isPtr {
			// cur.t is a ref to an object of type curT
			switch f.Type().Underlying().(type) {
			case *types.Struct:
				cur = Val{t: c.s.subRef(curT, i, cur.t), typ: types.NewPointer(f.Type())}
				curT = f.Type()
				isPtr = true
				continue
			case *types.Array:
				arr := f.Type().Underlying().(*types.Array)
				t := fmt.Sprintf("(select %s %s)", c.s.region(c.heap, elemRegion(arr.Elem()), c.s.elemSort(arr.Elem())), c.s.subRef(curT, i, cur.t))
				cur = Val{t: t, typ: f.Type()}
			default:
				t := fmt.Sprintf("(select %s %s)", c.s.region(c.heap, fieldRegion(curT, f, i), c.s.fieldSort(f)), cur.t)
				cur = Val{t: t, typ: f.Type()}
			}
			curT = f.Type()
			_, isPtr = curT.Underlying().(*types.Pointer)
			if isPtr {
				curT = curT.Underlying().(*types.Pointer).Elem()
			}
		} else {
			si := c.s.tc.structSort(curT)
			cur = Val{t: fmt.Sprintf("(%s %s)", c.s.tc.accessor(si, i), cur.t), typ: f.Type()}
			curT = f.Type()
			if p, ok := curT.Underlying().(*types.Pointer); ok {
				curT = p.Elem()
				isPtr = true
			}
		}
	}
	// if the final field is an embedded struct reached by ref, load it as a value
	if p, ok := cur.typ.Underlying().(*types.Pointer); ok && types.Identical(p.Elem(), fv.Type()) && !types.Identical(cur.typ, fv.Type()) {
		if _, isS := fv.Type().Underlying().(*types.Struct); isS {
			return Val{t: c.s.loadObj(c.heap, fv.Type(), cur.t), typ: fv.Type()}
		}
	}
	return cur
}

func (c *CEnv) elemAt(v Val, i string) Val {
	if v.seq != nil {
		el := v.typ.Underlying().(*types.Slice).Elem()
		return Val{t: fmt.Sprintf("(select %s (go.ix %s %s))", v.seq.arr, v.seq.off, i), typ: el}
	}
	switch u := v.typ.Underlying().(type) {
	case *types.Slice:
		H := c.s.region(c.heap, elemRegion(u.Elem()), c.s.elemSort(u.Elem()))
		return Val{t: fmt.Sprintf("(select (select %s (s.base %s)) (go.ix (s.off %s) %s))", H, v.t, v.t, i), typ: u.Elem()}
	case *types.Array:
		return Val{t: fmt.Sprintf("(select %s (go.ix 0 %s))", v.t, i), typ: u.Elem()}
	case *types.Pointer:
		if arr, ok := u.Elem().Underlying().(*types.Array); ok {
			H := c.s.region(c.heap, elemRegion(arr.Elem()), c.s.elemSort(arr.Elem()))
			return Val{t: fmt.Sprintf("(select (select %s %s) (go.ix 0 %s))", H, v.t, i), typ: arr.Elem()}
		}
	case *types.Basic:
		if isString(v.typ) {
			return Val{t: fmt.Sprintf("(str.to_code (str.at %s %s))", v.t, i), typ: types.Typ[types.Byte]}
		}
	}
	efail("cannot index %s", v.typ)
	return Val{}
}

func (c *CEnv) eval(e *Expr) Val {
	s := c.s
	switch e.Op {
	case "id":
		return c.ident(e.S)
	case "int":
		var n constant.Value = constant.MakeFromLiteral(e.S, 5 /*token.INT*/, 0)
		return Val{t: n.ExactString(), typ: tUInt}
	case "str":
		return Val{t: smtStr(e.S), typ: tString}
	case "chr":
		return Val{t: fmt.Sprintf("%d", []rune(e.S)[0]), typ: tUInt}
	case "bool":
		return Val{t: e.S, typ: tBool}
	case "nil":
		return Val{t: "0", typ: tNil}
	case "un":
		if e.S == "!" {
			v := c.flip().eval(e.Args[0])
			return Val{t: not(v.t), typ: tBool}
		}
		v := c.eval(e.Args[0])
		switch e.S {
		case "!":
			return Val{t: not(v.t), typ: tBool}
		case "-":
			return Val{t: fmt.Sprintf("(- %s)", v.t), typ: v.typ}
		case "*":
			T := derefType(v.typ)
			if T == nil {
				efail("deref of non-pointer %s", v.typ)
			}
			return Val{t: s.load(c.heap, v, T), typ: T}
		}
	case "bin":
		return c.evalBin(e)
	case "ite":
		cnd := c.nopol().eval(e.Args[0])
		a, b := c.eval(e.Args[1]), c.eval(e.Args[2])
		a = c.coerceNil(a, b.typ)
		b = c.coerceNil(b, a.typ)
		T := a.typ
		if T == tUInt {
			T = b.typ
		}
		return Val{t: fmt.Sprintf("(ite %s %s %s)", cnd.t, a.t, b.t), typ: T}
	case "sel":
		if x := e.Args[0]; x.Op == "id" {
			if _, isVar := c.tryIdent(x.S); !isVar {
				if p := c.importedPkg(x.S); p != nil {
					o := p.Scope().Lookup(e.S)
					switch o := o.(type) {
					case *types.Const:
						return c.constOf(o)
					case *types.Var:
						return c.globalOf(o)
					}
					efail("unknown %s.%s", x.S, e.S)
				}
			}
		}
		return c.fieldOf(c.eval(e.Args[0]), e.S)
	case "idx":
		v := c.eval(e.Args[0])
		if m, ok := v.typ.Underlying().(*types.Map); ok {
			k := c.eval(e.Args[1])
			if c.trig {
				M := s.region(c.heap, mapRegion(m), s.mapSort(m))
				return Val{t: fmt.Sprintf("(select (select %s %s) %s)", M, v.t, k.t), typ: m.Elem()}
			}
			_, val := s.mapGet(c.heap, m, v.t, k.t)
			return Val{t: val, typ: m.Elem()}
		}
		i := c.eval(e.Args[1])
		return c.elemAt(v, i.t)
	case "slice":
		v := c.eval(e.Args[0])
		lo := "0"
		if e.Args[1] != nil {
			lo = c.eval(e.Args[1]).t
		}
		if isString(v.typ) {
			hi := fmt.Sprintf("(str.len %s)", v.t)
			if e.Args[2] != nil {
				hi = c.eval(e.Args[2]).t
			}
			return Val{t: fmt.Sprintf("(str.substr %s %s (- %s %s))", v.t, lo, hi, lo), typ: v.typ}
		}
		if arr, ok := v.typ.Underlying().(*types.Array); ok {
			hi := fmt.Sprintf("%d", arr.Len())
			if e.Args[2] != nil {
				hi = c.eval(e.Args[2]).t
			}
			return Val{seq: &seqV{arr: v.t, off: lo, ln: fmt.Sprintf("(- %s %s)", hi, lo)}, typ: types.NewSlice(arr.Elem())}
		}
		if v.seq != nil {
			hi := v.seq.ln
			if e.Args[2] != nil {
				hi = c.eval(e.Args[2]).t
			}
			return Val{seq: &seqV{arr: v.seq.arr, off: fmt.Sprintf("(+ %s %s)", v.seq.off, lo), ln: fmt.Sprintf("(- %s %s)", hi, lo)}, typ: v.typ}
		}
		if _, ok := v.typ.Underlying().(*types.Slice); ok {
			hi := fmt.Sprintf("(s.len %s)", v.t)
			if e.Args[2] != nil {
				hi = c.eval(e.Args[2]).t
			}
			return Val{t: fmt.Sprintf("(mk-slice (s.base %s) (+ (s.off %s) %s) (- %s %s) (- (s.cap %s) %s))", v.t, v.t, lo, hi, lo, v.t, lo), typ: v.typ}
		}
		efail("cannot slice %s", v.typ)
	case "call":
		return c.evalCall(e)
	case "forall", "exists":
		nb := map[string]Val{}
		for k, v := range c.bound {
			nb[k] = v
		}
		if c.assume && len(c.outer) > 0 && ((e.Op == "forall" && c.pol < 0) || (e.Op == "exists" && c.pol > 0)) {
			ok := true
			for _, bv := range e.Vars {
				if _, isSl := c.resolveType(bv.Type).Underlying().(*types.Slice); isSl {
					ok = false
				}
			}
			if ok {
				for _, bv := range e.Vars {
					T := c.resolveType(bv.Type)
					s.nfresh++
					f := s.uf(fmt.Sprintf("sk:%s:%d", bv.Name, s.nfresh), c.outerS, s.tc.sortOf(T))
					nb[bv.Name] = Val{t: fmt.Sprintf("(%s %s)", f, strings.Join(c.outer, " ")), typ: T}
				}
				c2 := *c
				c2.bound = nb
				return c2.eval(e.Args[0])
			}
		}
		var decls []string
		var guards []string
		var qnames, qsorts []string
		for _, bv := range e.Vars {
			T := c.resolveType(bv.Type)
			c.depth++
			n := q(fmt.Sprintf("bv:%s:%d", bv.Name, c.depth))
			if sl, ok := T.Underlying().(*types.Slice); ok {
				na, nl, no := q(fmt.Sprintf("bv:%s:%d:arr", bv.Name, c.depth)), q(fmt.Sprintf("bv:%s:%d:len", bv.Name, c.depth)), q(fmt.Sprintf("bv:%s:%d:off", bv.Name, c.depth))
				nb[bv.Name] = Val{seq: &seqV{arr: na, off: no, ln: nl}, typ: T}
				decls = append(decls, fmt.Sprintf("(%s (Array Int %s))", na, s.tc.sortOf(sl.Elem())), fmt.Sprintf("(%s Int)", no), fmt.Sprintf("(%s Int)", nl))
				qnames = append(qnames, na, no, nl)
				qsorts = append(qsorts, fmt.Sprintf("(Array Int %s)", s.tc.sortOf(sl.Elem())), "Int", "Int")
				guards = append(guards, fmt.Sprintf("(<= 0 %s)", nl), fmt.Sprintf("(<= 0 %s)", no))
				continue
			}
			nb[bv.Name] = Val{t: n, typ: T}
			decls = append(decls, fmt.Sprintf("(%s %s)", n, s.tc.sortOf(T)))
			qnames = append(qnames, n)
			qsorts = append(qsorts, s.tc.sortOf(T))
		}
		c2 := *c
		c2.bound = nb
		c2.outer = append(append([]string{}, c.outer...), qnames...)
		c2.outerS = append(append([]string{}, c.outerS...), qsorts...)
		body := c2.eval(e.Args[0])
		c.depth = c2.depth
		bt := body.t
		if len(guards) > 0 {
			if e.Op == "forall" {
				bt = implies(and(guards...), bt)
			} else {
				bt = and(append(guards, bt)...)
			}
		}
		if len(e.Trig) > 0 {
			var ts []string
			for _, t := range e.Trig {
				tc := c2.nopol()
				tc.trig = true // map lookups as plain selects: patterns may not contain ite/and
				ts = append(ts, tc.eval(t).t)
			}
			bt = fmt.Sprintf("(! %s :pattern (%s))", bt, strings.Join(ts, " "))
		}
		return Val{t: fmt.Sprintf("(%s (%s) %s)", e.Op, strings.Join(decls, " "), bt), typ: tBool}
	}
	efail("cannot evaluate %s", e)
	return Val{}
}

func (c *CEnv) tryIdent(name string) (v Val, ok bool) {
	defer func() {
		if r := recover(); r != nil {
			if _, isE := r.(evalErr); isE {
				ok = false
				return
			}
			panic(r)
		}
	}()
	return c.ident(name), true
}

func (c *CEnv) evalBin(e *Expr) Val {
	op := e.S
	switch op {
	case "&&", "||", "==>", "<==>":
		var a, b Val
		switch op {
		case "==>":
			a, b = c.flip().eval(e.Args[0]), c.eval(e.Args[1])
		case "<==>":
			a, b = c.nopol().eval(e.Args[0]), c.nopol().eval(e.Args[1])
		default:
			a, b = c.eval(e.Args[0]), c.eval(e.Args[1])
		}
		switch op {
		case "&&":
			return Val{t: and(a.t, b.t), typ: tBool}
		case "||":
			return Val{t: or(a.t, b.t), typ: tBool}
		case "==>":
			return Val{t: implies(a.t, b.t), typ: tBool}
		default:
			return Val{t: fmt.Sprintf("(= %s %s)", a.t, b.t), typ: tBool}
		}
	}
	a, b := c.eval(e.Args[0]), c.eval(e.Args[1])
	a = c.coerceNil(a, b.typ)
	b = c.coerceNil(b, a.typ)
	T := a.typ
	if T == tUInt {
		T = b.typ
	}
	switch op {
	case "==":
		return Val{t: fmt.Sprintf("(= %s %s)", a.t, b.t), typ: tBool}
	case "!=":
		return Val{t: fmt.Sprintf("(not (= %s %s))", a.t, b.t), typ: tBool}
	}
	if isString(T) {
		switch op {
		case "+":
			return Val{t: fmt.Sprintf("(str.++ %s %s)", a.t, b.t), typ: T}
		case "<":
			return Val{t: fmt.Sprintf("(str.< %s %s)", a.t, b.t), typ: tBool}
		case "<=":
			return Val{t: fmt.Sprintf("(str.<= %s %s)", a.t, b.t), typ: tBool}
		case ">":
			return Val{t: fmt.Sprintf("(str.< %s %s)", b.t, a.t), typ: tBool}
		case ">=":
			return Val{t: fmt.Sprintf("(str.<= %s %s)", b.t, a.t), typ: tBool}
		}
	}
	switch op {
	case "<", "<=", ">", ">=":
		return Val{t: fmt.Sprintf("(%s %s %s)", op, a.t, b.t), typ: tBool}
	case "+", "-", "*":
		return Val{t: fmt.Sprintf("(%s %s %s)", op, a.t, b.t), typ: T}
	case "/":
		return Val{t: fmt.Sprintf("(go.div %s %s)", a.t, b.t), typ: T}
	case "%":
		return Val{t: fmt.Sprintf("(go.rem %s %s)", a.t, b.t), typ: T}
	}
	efail("unsupported operator %s", op)
	return Val{}
}

func (c *CEnv) evalCall(e *Expr) Val {
	s := c.s
	fnE := e.Args[0]
	args := e.Args[1:]
	if fnE.Op == "id" {
		switch fnE.S {
		case "old":
			if c.old == nil {
				efail("old() not available here")
			}
			return c.with(c.old).eval(args[0])
		case "len":
			v := c.eval(args[0])
			if v.seq != nil {
				return Val{t: v.seq.ln, typ: tInt}
			}
			switch u := v.typ.Underlying().(type) {
			case *types.Slice:
				return Val{t: fmt.Sprintf("(s.len %s)", v.t), typ: tInt}
			case *types.Array:
				return Val{t: fmt.Sprintf("%d", u.Len()), typ: tInt}
			case *types.Basic:
				return Val{t: fmt.Sprintf("(str.len %s)", v.t), typ: tInt}
			case *types.Map:
				f := s.uf("maplen:"+typeKey(u.Key()), []string{fmt.Sprintf("(Array %s Bool)", s.tc.sortOf(u.Key()))}, "Int")
				// as in the code's len(m): a nil map has length 0
				return Val{t: fmt.Sprintf("(ite (= %s 0) 0 (%s (select %s %s)))", v.t, f, s.region(c.heap, mapHasRegion(u), s.mapHasSort(u)), v.t), typ: tInt}
			case *types.Pointer:
				if arr, ok := u.Elem().Underlying().(*types.Array); ok {
					return Val{t: fmt.Sprintf("%d", arr.Len()), typ: tInt}
				}
			}
			efail("len of %s", v.typ)
		case "cap":
			v := c.eval(args[0])
			return Val{t: fmt.Sprintf("(s.cap %s)", v.t), typ: tInt}
		case "has":
			m := c.eval(args[0])
			k := c.eval(args[1])
			mt, ok := m.typ.Underlying().(*types.Map)
			if !ok {
				efail("has() on non-map")
			}
			h, _ := s.mapGet(c.heap, mt, m.t, k.t)
			return Val{t: h, typ: tBool}
		case "typeis":
			v := c.eval(args[0])
			T := c.resolveType(args[1].S)
			if _, isI := v.typ.Underlying().(*types.Interface); !isI {
				efail("typeis on non-interface")
			}
			if it, isI := T.Underlying().(*types.Interface); isI {
				// the dynamic type implements the interface (what a Go type switch case tests)
				if it.NumMethods() == 0 {
					return Val{t: fmt.Sprintf("(distinct (i.tag %s) 0)", v.t), typ: tBool}
				}
				s.implFacts(T)
				return Val{t: and(fmt.Sprintf("(distinct (i.tag %s) 0)", v.t), s.implTerm(fmt.Sprintf("(i.tag %s)", v.t), T)), typ: tBool}
			}
			return Val{t: fmt.Sprintf("(= (i.tag %s) %d)", v.t, s.tc.tagOf(T)), typ: tBool}
		case "as":
			T := c.resolveType(args[0].S)
			v := c.eval(args[1])
			return Val{t: s.unboxIface(v.t, T), typ: T}
		case "zero":
			T := c.resolveType(args[0].S)
			return Val{t: s.tc.zero(T), typ: T}
		case "tag":
			v := c.eval(args[0])
			return Val{t: fmt.Sprintf("(i.tag %s)", v.t), typ: tInt}
		case "int", "int8", "int16", "int32", "int64", "uint", "uint8", "uint16", "uint32", "uint64", "byte", "rune":
			v := c.eval(args[0])
			T := types.Universe.Lookup(fnE.S).Type()
			return Val{t: v.t, typ: T} // mathematical: contracts state ranges explicitly
		case "string":
			v := c.eval(args[0])
			if isString(v.typ) {
				return v
			}
			if sl, ok := v.typ.Underlying().(*types.Slice); ok && v.seq == nil {
				if b, ok := sl.Elem().Underlying().(*types.Basic); ok && b.Kind() == types.Uint8 {
					H := s.region(c.heap, elemRegion(sl.Elem()), s.elemSort(sl.Elem()))
					f := s.uf("str.ofbytes", []string{"(Array Int Int)", "Int", "Int"}, "String")
					return Val{t: fmt.Sprintf("(%s (select %s (s.base %s)) (s.off %s) (s.len %s))", f, H, v.t, v.t, v.t), typ: tString}
				}
			}
		case "matches":
			pat := c.literalString(args[0])
			re, err := regexToSMT(pat)
			if err != nil {
				efail("matches: %v", err)
			}
			v := c.eval(args[1])
			return Val{t: fmt.Sprintf("(str.in_re %s %s)", v.t, re), typ: tBool}
		case "$mapkey", "$mapidx":
			// $mapkey(i): i-th key of the (arbitrary) enumeration used by the map range of this loop
			// $mapidx(k): position of key k in that enumeration
			if c.lookup == nil {
				efail("%s outside a loop", fnE.S)
			}
			probe, ok := c.lookup("$mapiter")
			if !ok || probe.parts == nil {
				efail("%s: the loop has no map range", fnE.S)
			}
			a := c.eval(args[0])
			if fnE.S == "$mapkey" {
				return Val{t: fmt.Sprintf("(%s %s)", probe.parts[0].t, a.t), typ: probe.parts[0].typ}
			}
			return Val{t: fmt.Sprintf("(%s %s)", probe.parts[1].t, a.t), typ: tInt}
		case "hasext", "extof":
			// hasext(pkg.E_X, m): extension E_X is set on message m;  extof(pkg.E_X, m): its value (typed pointer)
			info := c.extVar(args[0])
			m := c.eval(args[1])
			ref := m.t
			if _, isI := m.typ.Underlying().(*types.Interface); isI {
				ref = fmt.Sprintf("(i.val %s)", m.t)
			}
			G := s.region(c.heap, extRegion(info), s.cellSort(info.Value))
			if fnE.S == "hasext" {
				return Val{t: fmt.Sprintf("(distinct (select %s %s) 0)", G, ref), typ: tBool}
			}
			return Val{t: fmt.Sprintf("(select %s %s)", G, ref), typ: info.Value}
		case "disjoint":
			// two slices do not share a backing store (or one of them is nil)
			a, b := c.eval(args[0]), c.eval(args[1])
			return Val{t: fmt.Sprintf("(or (distinct (s.base %s) (s.base %s)) (= (s.base %s) 0))", a.t, b.t, a.t), typ: tBool}
		case "runes":
			// the rune sequence of a string ([]rune(s)) as a pure sequence value
			a := c.eval(args[0])
			arr := fmt.Sprintf("(%s %s)", s.uf("runes.of", []string{"String"}, "(Array Int Int)"), a.t)
			ln := fmt.Sprintf("(%s %s)", s.uf("runes.len", []string{"String"}, "Int"), a.t)
			return Val{seq: &seqV{arr: arr, off: "0", ln: ln}, typ: types.NewSlice(types.Typ[types.Rune])}
		case "hasPrefix":
			a, b := c.eval(args[0]), c.eval(args[1])
			return Val{t: fmt.Sprintf("(str.prefixof %s %s)", b.t, a.t), typ: tBool}
		case "hasSuffix":
			a, b := c.eval(args[0]), c.eval(args[1])
			return Val{t: fmt.Sprintf("(str.suffixof %s %s)", b.t, a.t), typ: tBool}
		case "contains":
			a, b := c.eval(args[0]), c.eval(args[1])
			return Val{t: fmt.Sprintf("(str.contains %s %s)", a.t, b.t), typ: tBool}
		case "itoa":
			a := c.eval(args[0])
			return Val{t: fmt.Sprintf("(ite (>= %s 0) (str.from_int %s) (str.++ \"-\" (str.from_int (- %s))))", a.t, a.t, a.t), typ: tString}
		case "initconst":
			return Val{t: smtStr(c.literalString(e)), typ: tString}
		case "strlit": // helper: strlit("x")
			return c.eval(args[0])
		case "reach": // ref is allocated before the call/entry
			v := c.eval(args[0])
			if _, ok := v.typ.Underlying().(*types.Slice); ok {
				v.t = fmt.Sprintf("(s.base %s)", v.t)
			}
			return Val{t: fmt.Sprintf("(< %s %s)", v.t, c.heap.top), typ: tBool}
		case "sbase": // the backing array of a slice (two slices with different backing arrays do not overlap)
			v := c.eval(args[0])
			if _, ok := v.typ.Underlying().(*types.Slice); !ok {
				efail("sbase() of a non-slice")
			}
			return Val{t: fmt.Sprintf("(s.base %s)", v.t), typ: tInt}
		case "fresh": // allocated since old state
			v := c.eval(args[0])
			if c.old == nil {
				efail("fresh() needs an old state")
			}
			if _, ok := v.typ.Underlying().(*types.Slice); ok {
				v.t = fmt.Sprintf("(s.base %s)", v.t)
			}
			return Val{t: fmt.Sprintf("(and (>= %s %s) (< %s %s))", v.t, c.old.top, v.t, c.heap.top), typ: tBool}
		}
		if sf, ok := s.eng.cs.Specs[fnE.S]; ok {
			return c.applySpec(sf, args)
		}
		// conversion to a named type
		if T, ok := c.tryType(fnE.S); ok && len(args) == 1 {
			v := c.eval(args[0])
			return Val{t: v.t, typ: T}
		}
	}
	efail("unknown function %s", fnE)
	return Val{}
}

func (c *CEnv) tryType(name string) (T types.Type, ok bool) {
	defer func() {
		if r := recover(); r != nil {
			if _, isE := r.(evalErr); isE {
				ok = false
				return
			}
			panic(r)
		}
	}()
	return c.resolveType(name), true
}

func (c *CEnv) specEnv(sf *SpecFunc) *CEnv {
	n := *c
	n.pkg = c.s.eng.typesPkg(sf.Pkg)
	if n.pkg == nil {
		n.pkg = c.pkg
	}
	n.imports = c.s.eng.cs.Imports[sf.File]
	return &n
}

func (c *CEnv) applySpec(sf *SpecFunc, args []*Expr) Val {
	s := c.s
	if len(args) != len(sf.Params) {
		efail("spec func %s: %d args, want %d", sf.Name, len(args), len(sf.Params))
	}
	se := c.specEnv(sf)
	if s.specUsed == nil {
		s.specUsed = map[string]bool{}
	}
	s.specUsed[sf.Name] = true
	var vals []Val
	for i, a := range args {
		v := c.eval(a)
		pt := se.resolveType(sf.Params[i].Type)
		v = c.coerceNil(v, pt)
		if v.seq != nil {
			vals = append(vals, v)
			continue
		}
		if v.typ == tUInt || s.tc.sortOf(v.typ) == s.tc.sortOf(pt) {
			v.typ = pt
		} else {
			efail("spec func %s arg %d: have %s want %s", sf.Name, i, v.typ, pt)
		}
		vals = append(vals, v)
	}
	ret := se.resolveType(sf.Ret)
	if sf.Ghost {
		key := ghostRegion(sf.Name, ret)
		return Val{t: fmt.Sprintf("(select %s %s)", s.region(c.heap, key, s.cellSort(ret)), vals[0].t), typ: ret}
	}
	if sf.Def != nil && sf.Def.E != nil && !sf.Opaque {
		// macro expansion in the current heap
		if c.depth > 400 {
			efail("spec func recursion too deep (%s)", sf.Name)
		}
		n := *se
		n.bound = map[string]Val{}
		n.vars = map[string]Val{}
		n.lookup = nil
		n.results = nil
		for i, p := range sf.Params {
			n.bound[p.Name] = vals[i]
		}
		n.depth = c.depth + 10
		r := n.eval(sf.Def.E)
		r.typ = ret
		return r
	}
	// uninterpreted: slices are passed as (array, off, len)
	var sorts, terms []string
	for _, v := range vals {
		if v.seq != nil {
			sl := v.typ.Underlying().(*types.Slice)
			sorts = append(sorts, fmt.Sprintf("(Array Int %s)", s.tc.sortOf(sl.Elem())), "Int", "Int")
			terms = append(terms, v.seq.arr, v.seq.off, v.seq.ln)
			continue
		}
		if sl, ok := v.typ.Underlying().(*types.Slice); ok {
			H := s.region(c.heap, elemRegion(sl.Elem()), s.elemSort(sl.Elem()))
			sorts = append(sorts, fmt.Sprintf("(Array Int %s)", s.tc.sortOf(sl.Elem())), "Int", "Int")
			terms = append(terms, fmt.Sprintf("(select %s (s.base %s))", H, v.t), fmt.Sprintf("(s.off %s)", v.t), fmt.Sprintf("(s.len %s)", v.t))
		} else {
			sorts = append(sorts, s.tc.sortOf(v.typ))
			terms = append(terms, v.t)
		}
	}
	f := s.uf("spec:"+sf.Name, sorts, s.tc.sortOf(ret))
	if len(terms) == 0 {
		return Val{t: f, typ: ret}
	}
	return Val{t: fmt.Sprintf("(%s %s)", f, strings.Join(terms, " ")), typ: ret}
}

// funcEnv builds the environment for the function under verification.
func (s *Sess) funcEnv(heap, old *State, results []Val) *CEnv {
	c := &CEnv{s: s, vars: map[string]Val{}, heap: heap, old: old, results: results, pkg: s.fn.Pkg.Pkg}
	if s.fn.Pkg == nil && s.fn.Parent() != nil {
		c.pkg = s.fn.Parent().Pkg.Pkg
	}
	for n, v := range s.paramVals {
		c.vars[n] = v
	}
	for i, p := range s.fn.Params {
		c.vars[fmt.Sprintf("$%d", i)] = s.env[p]
	}
	if s.fn.Signature.Recv() != nil && len(s.fn.Params) > 0 {
		c.vars["$recv"] = s.env[s.fn.Params[0]]
		// interface-level clauses refer to the receiver as an interface value `recv`
		rv := s.env[s.fn.Params[0]]
		if rv.place == nil && rv.t != "" {
			rt := s.fn.Signature.Recv().Type()
			c.vars["recv"] = Val{t: s.makeIfaceQuiet(rv, rt), typ: types.NewInterfaceType(nil, nil)}
		}
	}
	sig := s.fn.Signature
	for i := 0; i < sig.Results().Len(); i++ {
		c.resNames = append(c.resNames, sig.Results().At(i).Name())
	}
	c.imports = s.eng.fileImports(s.fn)
	if s.ct != nil {
		for _, l := range s.ct.Lets {
			if l.C.E != nil {
				v, err := c.evalVal(l.C.E)
				if err == nil {
					c.vars[l.Name] = v
				}
			}
		}
	}
	return c
}

var _ = ssa.BuilderMode(0)

// exprSpecs lists the spec functions mentioned in e.
func exprSpecs(e *Expr, cs *ContractSet, out map[string]bool) {
	if e == nil {
		return
	}
	if e.Op == "call" && e.Args[0].Op == "id" {
		if _, ok := cs.Specs[e.Args[0].S]; ok {
			out[e.Args[0].S] = true
		}
	}
	for _, a := range e.Args {
		exprSpecs(a, cs, out)
	}
}

// emitAxioms adds every axiom that mentions a spec function used by this session (transitively).
func (s *Sess) emitAxioms() {
	if s.axiomDone == nil {
		s.axiomDone = map[string]bool{}
	}
	for changed := true; changed; {
		changed = false
		// definitional axioms of opaque spec functions in use
		for _, name := range sortedKeys(s.specUsed) {
			sf := s.eng.cs.Specs[name]
			if sf == nil || !sf.Opaque || sf.Def == nil || sf.Def.E == nil || s.axiomDone["def:"+name] {
				continue
			}
			s.axiomDone["def:"+name] = true
			call := &Expr{Op: "call", Args: []*Expr{{Op: "id", S: name}}}
			for _, p := range sf.Params {
				call.Args = append(call.Args, &Expr{Op: "id", S: p.Name})
			}
			ax := &Expr{Op: "forall", Vars: sf.Params, Trig: []*Expr{call}, Args: []*Expr{{Op: "bin", S: "<==>", Args: []*Expr{call, sf.Def.E}}}}
			if sf.Ret != "bool" {
				ax.Args[0].S = "=="
			}
			if len(sf.Params) == 0 {
				ax = ax.Args[0]
			}
			c := &CEnv{s: s, vars: map[string]Val{}, heap: s.entry, pkg: s.eng.typesPkg(sf.Pkg), imports: s.eng.cs.Imports[sf.File]}
			s.heapReads = 0
			f, err := c.evalAssume(ax)
			if err != nil {
				s.unsupp("definition of opaque %s: %v", name, err)
				continue
			}
			if s.heapReads > 0 {
				// an opaque function is applied to its arguments only: a definition that reads the
				// heap would be pinned to the entry state and hold in every later state
				s.detached("opaque spec function %s reads the heap: define it with 'spec func' instead", name)
				continue
			}
			s.axioms = append(s.axioms, "(assert "+f+") ; definition of "+name)
			changed = true
		}
		for _, l := range s.eng.cs.Lemmas {
			if s.axiomDone[l.Name] || l.C.E == nil {
				continue
			}
			if !l.Axiom && !s.eng.lemmaProved[l.Name] {
				continue
			}
			m := map[string]bool{}
			exprSpecs(l.C.E, s.eng.cs, m)
			rel := false
			for k := range m {
				if s.specUsed[k] {
					rel = true
				}
			}
			if !rel {
				continue
			}
			s.axiomDone[l.Name] = true
			c := &CEnv{s: s, vars: map[string]Val{}, heap: s.entry, pkg: s.eng.typesPkg(l.Pkg), imports: s.eng.cs.Imports[l.C.File]}
			f, err := c.evalAssume(l.C.E)
			if err != nil {
				s.unsupp("axiom %s: %v", l.Name, err)
				continue
			}
			s.axioms = append(s.axioms, "(assert "+f+") ; axiom "+l.Name)
			s.axiomsUsed = append(s.axiomsUsed, l.Name)
			changed = true
		}
	}
}

// literalString resolves a string literal or initconst(X), the constant initializer of the
// package-level variable X read from the source on this run.
func (c *CEnv) literalString(e *Expr) string {
	if e.Op == "str" {
		return e.S
	}
	if e.Op == "call" && e.Args[0].Op == "id" && e.Args[0].S == "initconst" && len(e.Args) == 2 && e.Args[1].Op == "id" {
		name := e.Args[1].S
		if c.pkg != nil {
			if v, ok := c.s.eng.initConst(c.pkg.Path(), name); ok {
				return v
			}
		}
		efail("initconst(%s): no constant string initializer found", name)
	}
	if e.Op == "call" && e.Args[0].Op == "id" && e.Args[0].S == "initconst" && len(e.Args) == 2 && e.Args[1].Op == "sel" && e.Args[1].Args[0].Op == "id" {
		// initconst(pkg.Name): the constant string a variable of an imported package is initialised with
		if p := c.importedPkg(e.Args[1].Args[0].S); p != nil {
			if v, ok := c.s.eng.initConst(p.Path(), e.Args[1].S); ok {
				return v
			}
		}
		efail("initconst(%s.%s): no constant string initializer found", e.Args[1].Args[0].S, e.Args[1].S)
	}
	efail("expected a string literal or initconst(X)")
	return ""
}

// extVar resolves an expression naming a generated extension variable (pkg.E_X or E_X).
func (c *CEnv) extVar(e *Expr) *extInfo {
	var obj types.Object
	switch {
	case e.Op == "sel" && e.Args[0].Op == "id":
		if p := c.importedPkg(e.Args[0].S); p != nil {
			obj = p.Scope().Lookup(e.S)
		}
	case e.Op == "id" && c.pkg != nil:
		obj = c.pkg.Scope().Lookup(e.S)
	}
	if v, ok := obj.(*types.Var); ok {
		if info := c.s.eng.exts[v]; info != nil {
			return info
		}
	}
	efail("%s is not a generated extension variable", e)
	return nil
}
