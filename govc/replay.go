package main

// replayModel turns a solver model into a Go test on the real function (go test -overlay) when the
// contract of the function carries a replay driver. Returns the test output and whether the
// violation was confirmed on the real code.
func (e *Engine) replayModel(ob *Obligation, repo, verif, prop string) (string, bool) {
	return "", false
}
