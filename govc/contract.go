package main

// Contract files: comment-only Go files (//go:build verif) in /repo packages and *.spec files
// under /verif/spec. Every directive is a line starting with "//@".

import (
	"bufio"
	"fmt"
	"os"
	"regexp"
	"strconv"
	"strings"
)

type Clause struct {
	Free  bool // free requires: assumed when the function is verified, not an obligation of callers
	Label string
	Src   string
	E     *Expr
	File  string
	Line  int
}

type LoopSpec struct {
	Invariants []*Clause
	Decreases  *Clause
}

type Contract struct {
	Func      string // key as written
	Pkg       string // package path the file belongs to ("" for spec files with qualified names)
	Requires  []*Clause
	Ensures   []*Clause
	Loops     map[int]*LoopSpec
	Decreases *Clause
	Pure      bool // no heap effect, result is a function of the arguments (and heap if ReadsHeap)
	ReadsHeap bool
	Modifies  []string // region patterns; nil = computed by mod analysis; ["nothing"]
	FreeInvs  []*Clause // free invariant: a system invariant assumed at entry and after every havoc inside the function (listed as an assumption)
	FrameFresh []string // regions the function writes only on objects it allocates itself (assumed refinement of the computed frame)
	Opts      map[string]string
	PanicsWhen []*Clause
	Replay    string
	Trusted   bool // from a spec file (assumption), not checked
	Synth     bool // synthesised from a type invariant only
	IfaceRecv bool // has clauses inherited from an interface contract (they name the receiver `recv`)
	Iterates  string // name of callback parameter: callee calls it 0..n times
	File      string
	Line      int
	Lets      []LetDef
	Asserts   []*AssertAt
}

// AssertAt is a program-point assertion: checked in the state just before the Ord-th call
// (source order) to a callee whose short name is Callee; locals are resolved by name.
type AssertAt struct {
	Callee string
	Ord    int
	C      *Clause
	seen   bool
}

type LetDef struct {
	Name string
	C    *Clause
}

type SpecFunc struct {
	Name   string
	Params []BVar
	Ret    string
	Def    *Clause // optional definition
	Ghost  bool    // ghost heap field: name(ref) reads region G:name
	Opaque bool    // uninterpreted symbol + definitional axiom (kept folded unless the axiom fires)
	Pkg    string
	File   string
}

type Lemma struct {
	Name   string
	C      *Clause
	Axiom  bool
	Pkg    string
	Using  []string // names of contracts whose posts are instantiated (informational)
}

type TypeInv struct {
	Pkg, Type, Binder string
	C                 *Clause
}

type ContractSet struct {
	TypeInvs []*TypeInv
	Funcs   map[string]*Contract // key: pkgpath + "::" + func key, or qualified name for specs
	Specs   map[string]*SpecFunc
	Lemmas  []*Lemma
	Imports map[string]map[string]string // file -> alias -> path
	Expect  map[string]int             // pkg -> min obligations
	Pragmas []string                   // mechanical scan: trusted/axiom/pure lines
}

func NewContractSet() *ContractSet {
	return &ContractSet{Funcs: map[string]*Contract{}, Specs: map[string]*SpecFunc{}, Imports: map[string]map[string]string{}, Expect: map[string]int{}}
}

var typeInvRe = regexp.MustCompile(`^(\S+)\s+invariant\s+([A-Za-z_][A-Za-z0-9_]*):\s*(.*)$`)

func renameIdent(e *Expr, from, to string) *Expr {
	if e == nil {
		return nil
	}
	n := *e
	if n.Op == "id" && n.S == from {
		n.S = to
	}
	for _, v := range n.Vars {
		if v.Name == from {
			return &n // shadowed
		}
	}
	n.Args = make([]*Expr, len(e.Args))
	for i, a := range e.Args {
		n.Args[i] = renameIdent(a, from, to)
	}
	n.Trig = make([]*Expr, len(e.Trig))
	for i, a := range e.Trig {
		n.Trig[i] = renameIdent(a, from, to)
	}
	return &n
}

var assertRe = regexp.MustCompile(`^at\s+([^\s#]+)#(\d+)\s+(.*)$`)
var labelRe = regexp.MustCompile(`^([A-Za-z_][A-Za-z0-9_.\-]*):(\s|$)`)
var specFuncRe = regexp.MustCompile(`^spec\s+(func|ghost|opaque)\s+([A-Za-z_][A-Za-z0-9_]*)\s*\((.*?)\)\s*([^=]*?)\s*(=\s*(.*))?$`)

func splitParams(s string) []BVar {
	var out []BVar
	depth := 0
	cur := ""
	flush := func() {
		cur = strings.TrimSpace(cur)
		if cur == "" {
			return
		}
		i := strings.IndexAny(cur, " \t")
		if i < 0 {
			out = append(out, BVar{Name: cur})
		} else {
			out = append(out, BVar{Name: cur[:i], Type: strings.TrimSpace(cur[i+1:])})
		}
		cur = ""
	}
	for _, c := range s {
		switch c {
		case '(', '[', '{':
			depth++
		case ')', ']', '}':
			depth--
		}
		if c == ',' && depth == 0 {
			flush()
			continue
		}
		cur += string(c)
	}
	flush()
	// "a, b int" style: propagate types backwards
	for i := len(out) - 2; i >= 0; i-- {
		if out[i].Type == "" {
			out[i].Type = out[i+1].Type
		}
	}
	return out
}

// LoadFile parses one contract/spec file. pkg is the import path for in-repo contract files, "" for specs.
func (cs *ContractSet) LoadFile(path, pkg string, trusted bool) error {
	f, err := os.Open(path)
	if err != nil {
		return err
	}
	defer f.Close()
	sc := bufio.NewScanner(f)
	sc.Buffer(make([]byte, 1<<20), 1<<20)
	var cur *Contract
	type pending struct {
		kind string
		text string
		line int
	}
	var pend *pending
	var firstErr error
	fail := func(line int, f string, a ...any) {
		if firstErr == nil {
			firstErr = fmt.Errorf("%s:%d: %s", path, line, fmt.Sprintf(f, a...))
		}
	}
	mk := func(text string, line int, allowLabel bool) *Clause {
		c := &Clause{File: path, Line: line}
		text = strings.TrimSpace(text)
		if allowLabel {
			if m := labelRe.FindStringSubmatch(text); m != nil && !strings.HasPrefix(text[len(m[1]):], "::") {
				c.Label = m[1]
				text = strings.TrimSpace(text[len(m[0]):])
			}
		}
		c.Src = text
		e, err := ParseExpr(text)
		if err != nil {
			fail(line, "%v", err)
			return c
		}
		c.E = e
		return c
	}
	flush := func() {
		if pend == nil {
			return
		}
		p := pend
		pend = nil
		fields := strings.Fields(p.text)
		if len(fields) == 0 {
			return
		}
		rest := strings.TrimSpace(strings.TrimPrefix(strings.TrimSpace(p.text), fields[0]))
		switch fields[0] {
		case "import":
			if len(fields) == 3 {
				if cs.Imports[path] == nil {
					cs.Imports[path] = map[string]string{}
				}
				cs.Imports[path][fields[1]] = strings.Trim(fields[2], `"`)
			}
		case "expect-obligations":
			n, _ := strconv.Atoi(fields[len(fields)-1])
			cs.Expect[pkg] = n
		case "func":
			cur = &Contract{Func: rest, Pkg: pkg, Loops: map[int]*LoopSpec{}, Opts: map[string]string{}, Trusted: trusted, File: path, Line: p.line}
			key := rest
			if pkg != "" {
				key = pkg + "::" + rest
			}
			if prev, dup := cs.Funcs[key]; dup {
				cur = prev // a later block for the same function adds clauses
				return
			}
			cs.Funcs[key] = cur
			if trusted {
				cs.Pragmas = append(cs.Pragmas, "trusted contract: "+rest)
			}
		case "spec":
			m := specFuncRe.FindStringSubmatch(strings.TrimSpace(p.text))
			if m == nil {
				fail(p.line, "bad spec func: %s", p.text)
				return
			}
			sf := &SpecFunc{Name: m[2], Params: splitParams(m[3]), Ret: strings.TrimSpace(m[4]), Pkg: pkg, File: path, Ghost: m[1] == "ghost", Opaque: m[1] == "opaque"}
			if m[6] != "" {
				sf.Def = mk(m[6], p.line, false)
			}
			cs.Specs[sf.Name] = sf
		case "type":
			// type *T invariant x: expr
			m := typeInvRe.FindStringSubmatch(rest)
			if m == nil {
				fail(p.line, "bad type invariant (want: type *T invariant x: expr)")
				return
			}
			cl := mk(m[3], p.line, false)
			if cl.E != nil {
				cl.E = renameIdent(cl.E, m[2], "$recv")
			}
			cs.TypeInvs = append(cs.TypeInvs, &TypeInv{Pkg: pkg, Type: m[1], Binder: m[2], C: cl})
		case "axiom", "lemma":
			c := mk(rest, p.line, true)
			if c.Label == "" {
				fail(p.line, "%s needs a name", fields[0])
			}
			cs.Lemmas = append(cs.Lemmas, &Lemma{Name: c.Label, C: c, Axiom: fields[0] == "axiom", Pkg: pkg})
			if fields[0] == "axiom" {
				cs.Pragmas = append(cs.Pragmas, "axiom "+c.Label+": "+c.Src)
			}
		default:
			if cur == nil {
				fail(p.line, "clause outside func: %s", p.text)
				return
			}
			switch fields[0] {
			case "requires":
				cur.Requires = append(cur.Requires, mk(rest, p.line, true))
			case "frame":
				// frame fresh <region key>...: assumed refinement of the computed mod set
				r2 := strings.TrimSpace(strings.TrimPrefix(rest, "fresh"))
				cur.FrameFresh = append(cur.FrameFresh, strings.Fields(r2)...)
				cs.Pragmas = append(cs.Pragmas, "assumed frame of "+cur.Func+": writes "+r2+" only on objects it allocates")
			case "free":
				// free requires <expr>: a system invariant assumed at this entry point (listed as an assumption)
				if strings.HasPrefix(rest, "invariant") {
					c := mk(strings.TrimSpace(strings.TrimPrefix(rest, "invariant")), p.line, true)
					c.Free = true
					cur.FreeInvs = append(cur.FreeInvs, c)
					cs.Pragmas = append(cs.Pragmas, "free invariant of "+cur.Func+" (assumed at entry and after every call and loop havoc): "+c.Src)
					break
				}
				if strings.HasPrefix(rest, "ensures") {
					c := mk(strings.TrimSpace(strings.TrimPrefix(rest, "ensures")), p.line, true)
					c.Free = true
					cur.Ensures = append(cur.Ensures, c)
					cs.Pragmas = append(cs.Pragmas, "free ensures of "+cur.Func+" (assumed, not checked): "+c.Src)
					break
				}
				r2 := strings.TrimSpace(strings.TrimPrefix(rest, "requires"))
				c := mk(r2, p.line, true)
				c.Free = true
				cur.Requires = append(cur.Requires, c)
				cs.Pragmas = append(cs.Pragmas, "free requires of "+cur.Func+": "+c.Src)
			case "ensures":
				cur.Ensures = append(cur.Ensures, mk(rest, p.line, true))
			case "panics":
				rest = strings.TrimSpace(strings.TrimPrefix(rest, "when"))
				cur.PanicsWhen = append(cur.PanicsWhen, mk(rest, p.line, true))
			case "let":
				i := strings.Index(rest, "=")
				if i < 0 {
					fail(p.line, "let needs =")
					return
				}
				cur.Lets = append(cur.Lets, LetDef{strings.TrimSpace(rest[:i]), mk(rest[i+1:], p.line, false)})
			case "assert":
				// assert at <callee>#<k> [label:] expr
				m := assertRe.FindStringSubmatch(rest)
				if m == nil {
					fail(p.line, "bad assert clause (want: assert at callee#k expr)")
					return
				}
				k, _ := strconv.Atoi(m[2])
				cur.Asserts = append(cur.Asserts, &AssertAt{Callee: m[1], Ord: k, C: mk(m[3], p.line, true)})
			case "decreases":
				cur.Decreases = mk(rest, p.line, false)
			case "loop":
				if len(fields) < 3 {
					fail(p.line, "bad loop clause")
					return
				}
				k, err := strconv.Atoi(fields[1])
				if err != nil {
					fail(p.line, "bad loop ordinal")
					return
				}
				ls := cur.Loops[k]
				if ls == nil {
					ls = &LoopSpec{}
					cur.Loops[k] = ls
				}
				body := strings.TrimSpace(strings.TrimPrefix(strings.TrimSpace(strings.TrimPrefix(rest, fields[1])), fields[2]))
				switch fields[2] {
				case "invariant":
					ls.Invariants = append(ls.Invariants, mk(body, p.line, true))
				case "decreases":
					ls.Decreases = mk(body, p.line, false)
				default:
					fail(p.line, "bad loop clause kind %s", fields[2])
				}
			case "pure":
				cur.Pure = true
				if strings.Contains(rest, "reads") {
					cur.ReadsHeap = true
				}
			case "modifies":
				cur.Modifies = append(cur.Modifies, strings.Fields(strings.ReplaceAll(rest, ",", " "))...)
				if len(cur.Modifies) == 0 {
					cur.Modifies = []string{"nothing"}
				}
			case "iterates":
				cur.Iterates = rest
			case "opt":
				if len(fields) >= 3 {
					cur.Opts[fields[1]] = strings.Join(fields[2:], " ")
				} else if len(fields) == 2 {
					cur.Opts[fields[1]] = "true"
				}
			case "replay":
				cur.Replay = rest
			default:
				fail(p.line, "unknown clause %q", fields[0])
			}
		}
	}
	ln := 0
	for sc.Scan() {
		ln++
		line := strings.TrimSpace(sc.Text())
		if !strings.HasPrefix(line, "//@") {
			continue
		}
		body := strings.TrimSpace(line[3:])
		if strings.HasPrefix(body, "|") {
			if pend != nil {
				pend.text += " " + strings.TrimSpace(body[1:])
			}
			continue
		}
		flush()
		if body == "" || strings.HasPrefix(body, "//") {
			continue
		}
		pend = &pending{text: body, line: ln}
	}
	flush()
	return firstErr
}
