package main

import (
	"fmt"
	"go/constant"
	"go/token"
	"go/types"
	"os"
	"sort"
	"strings"

	"golang.org/x/tools/go/ssa"
)

func (s *Sess) callOrd(in ssa.CallInstruction) int {
	if i, ok := in.(ssa.Instruction); ok {
		return s.ord[i]
	}
	return 0
}

func (s *Sess) bumpTop(st *State) {
	nt := s.fresh("top", "Int")
	s.assume(fmt.Sprintf("(<= %s %s)", st.top, nt))
	st.top = nt
}

// call executes a call instruction symbolically and returns its result components.
func (s *Sess) call(in ssa.CallInstruction, st *State) []Val {
	com := in.Common()
	sig := com.Signature()
	nres := sig.Results().Len()
	var resTypes []types.Type
	for i := 0; i < nres; i++ {
		resTypes = append(resTypes, sig.Results().At(i).Type())
	}
	if b, ok := com.Value.(*ssa.Builtin); ok {
		// builtins (append, copy, ...) are assertion sites too: `assert at append#k`
		if s.inlineDepth == 0 {
			s.checkAssertsAt(in, "builtin."+b.Name(), st)
		}
		return s.builtin(in, b, st)
	}
	// gather argument values (receiver first)
	var args []Val
	escapes := []*Place{}
	addArg := func(v ssa.Value) {
		x := s.val(v)
		if x.place != nil {
			// interior pointer escapes into the callee: modelled as an opaque cell pointer; the
			// region it points into is havoced after the call
			escapes = append(escapes, x.place)
			x = Val{t: s.fresh("esc", "Int"), typ: v.Type()}
		}
		args = append(args, x)
	}
	var callee *ssa.Function
	var ct *Contract
	name := s.eng.calleeName(com)
	if com.IsInvoke() {
		addArg(com.Value)
		if s.nilcheck {
			if _, isDefer := in.(*ssa.Defer); !isDefer {
				s.oblige(st, "nil", fmt.Sprintf("nilcall.%s@%d", com.Method.Name(), s.ord[in.(ssa.Instruction)]), fmt.Sprintf("(distinct (i.tag %s) 0)", args[0].t), in.Pos(), "method call on a nil interface value: "+name)
			}
		}
		ct = s.eng.contractForMethod(com.Method)
	} else {
		callee = com.StaticCallee()
		if callee != nil {
			ct = s.eng.contractFor(callee)
			if mc, ok := com.Value.(*ssa.MakeClosure); ok {
				for _, b := range mc.Bindings {
					addArg(b)
				}
			} else if cv := s.val(com.Value); cv.clo != nil {
				callee = cv.clo.Fn.(*ssa.Function)
				ct = s.eng.contractFor(callee)
				for _, b := range cv.clo.Bindings {
					addArg(b)
				}
			}
		} else if cv := s.val(com.Value); cv.clo != nil {
			callee = cv.clo.Fn.(*ssa.Function)
			ct = s.eng.contractFor(callee)
			for _, b := range cv.clo.Bindings {
				addArg(b)
			}
		}
	}
	nbind := len(args)
	if com.IsInvoke() {
		nbind = 0
	}
	for _, a := range com.Args {
		addArg(a)
	}
	pre := st.clone()
	if s.inlineDepth == 0 {
		s.checkAssertsAt(in, name, st)
	}
	if (ct == nil || ct.Synth) && callee != nil && s.shouldInline(callee) {
		s.inlineSites = append(s.inlineSites, in)
		r, ok := s.inlineCall(callee, args, st)
		s.inlineSites = s.inlineSites[:len(s.inlineSites)-1]
		if ok {
			return r
		}
	}
	if s.sortFuncIntrinsic(in, name, args, st) {
		return nil
	}
	if r, ok := s.fmtIntrinsic(in, name, args, st); ok {
		return r
	}
	if r, ok := s.extIntrinsic(in, name, args, st); ok {
		return r
	}

	// results
	var results []Val
	mkResults := func(pure bool, fname string) {
		for i, T := range resTypes {
			var t string
			if pure {
				var sorts, terms []string
				for _, a := range args {
					sorts = append(sorts, s.tc.sortOf(a.typ))
					terms = append(terms, a.t)
				}
				f := s.uf(fmt.Sprintf("fn:%s:%d", fname, i), sorts, s.tc.sortOf(T))
				if len(terms) == 0 {
					t = f
				} else {
					t = fmt.Sprintf("(%s %s)", f, strings.Join(terms, " "))
				}
				t = s.define("cr", s.tc.sortOf(T), t)
			} else {
				t = s.fresh("cr", s.tc.sortOf(T))
			}
			results = append(results, Val{t: t, typ: T})
		}
	}

	if ct != nil {
		key := name
		s.funcsUsed[key] = true
		if ct.Trusted {
			s.trustedUsed[key] = true
		} else if r := ct.Opts["assumed"]; r != "" {
			s.trustedUsed["ASSUMED in-repo contract (not checked, "+r+"): "+key] = true
		}
		ce := s.calleeEnv(ct, callee, com, args, nbind, st, pre, nil)
		for i, r := range ct.Requires {
			if r.E == nil || r.Free {
				continue
			}
			f, err := ce.evalBool(r.E)
			if err != nil {
				s.detached("call %s requires %q: %v", name, r.Src, err)
				continue
			}
			s.oblige(st, "pre", fmt.Sprintf("pre.%s.%s@%d", shortName(name), labelOr(r.Label, i), s.callOrd(in)), f, in.Pos(), "precondition of "+name+": "+r.Src)
		}
		if callee != nil && callee == s.fn && ct.Decreases != nil && ct.Decreases.E != nil {
			// direct recursion: the measure of the recursive call is below the measure at entry
			me, err1 := s.funcEnv(s.entry, s.entry, nil).evalVal(ct.Decreases.E)
			mc, err2 := ce.evalVal(ct.Decreases.E)
			if err1 != nil || err2 != nil {
				s.unsupp("decreases of %s: %v %v", name, err1, err2)
			} else {
				s.oblige(st, "dec", fmt.Sprintf("rec.dec@%d", s.callOrd(in)), fmt.Sprintf("(and (<= 0 %s) (< %s %s))", me.t, mc.t, me.t), in.Pos(), "recursive call decreases the measure: "+ct.Decreases.Src)
			}
		} else if callee != nil && callee == s.fn {
			s.warnings = append(s.warnings, "recursive call without decreases: termination not checked")
		}
		if ct.Pure {
			mkResults(!ct.ReadsHeap, name)
		} else {
			mod := s.eng.callMods(s, ct, callee, com, args)
			s.havocModsAtCall(st, mod, pre, in)
			mkResults(false, name)
		}
		for _, r := range results {
			s.assumeAt(st, s.wf(r.t, r.typ, st.top))
		}
		ce = s.calleeEnv(ct, callee, com, args, nbind, st, pre, results)
		for _, e := range ct.Ensures {
			if e.E == nil {
				continue
			}
			f, err := ce.evalAssume(e.E)
			if err != nil {
				s.detached("call %s ensures %q: %v", name, e.Src, err)
				continue
			}
			s.assumeAt(st, f)
		}
	} else {
		mod := s.eng.callMods(s, nil, callee, com, args)
		s.havocCalls[name] = true
		s.havocModsAtCall(st, mod, pre, in)
		mkResults(false, name)
		for _, r := range results {
			s.assumeAt(st, s.wf(r.t, r.typ, st.top))
		}
	}
	for _, p := range escapes {
		s.havocRegion(st, p.region)
	}
	return results
}

func shortName(n string) string {
	if i := strings.LastIndex(n, "/"); i >= 0 {
		n = n[i+1:]
	}
	return n
}

// calleeEnv binds the callee's parameter names to the actual arguments.
func (s *Sess) calleeEnv(ct *Contract, callee *ssa.Function, com *ssa.CallCommon, args []Val, nbind int, heap, old *State, results []Val) *CEnv {
	c := &CEnv{s: s, vars: map[string]Val{}, heap: heap, old: old, results: results}
	var sig *types.Signature
	if callee != nil {
		sig = callee.Signature
		if callee.Pkg != nil {
			c.pkg = callee.Pkg.Pkg
		} else if callee.Parent() != nil && callee.Parent().Pkg != nil {
			c.pkg = callee.Parent().Pkg.Pkg
		}
		// free variables of closures come first in args
		for i, fv := range callee.FreeVars {
			if i < nbind {
				c.vars[fv.Name()] = args[i]
			}
		}
	} else {
		sig = com.Signature()
		if com.IsInvoke() {
			if p := com.Method.Pkg(); p != nil {
				c.pkg = p
			}
		}
	}
	rest := args[nbind:]
	k := 0
	if com.IsInvoke() {
		c.vars["$recv"] = rest[0]
		c.vars["recv"] = rest[0]
		rest = rest[1:]
	} else if sig.Recv() != nil && len(rest) > 0 {
		c.vars["$recv"] = rest[0]
		if n := sig.Recv().Name(); n != "" && n != "_" {
			c.vars[n] = rest[0]
		}
		rest = rest[1:]
	}
	// parameter names come from the generic origin: instantiated signatures are canonicalised by
	// type, so two generic functions instantiated at the same type share one signature object
	nameSig := sig
	if callee != nil && callee.Origin() != nil {
		nameSig = callee.Origin().Signature
	}
	for i := 0; i < sig.Params().Len() && i < len(rest); i++ {
		p := sig.Params().At(i)
		if i < nameSig.Params().Len() {
			p = nameSig.Params().At(i)
		}
		if n := p.Name(); n != "" && n != "_" {
			c.vars[n] = rest[i]
		}
		c.vars[fmt.Sprintf("$%d", k)] = rest[i]
		k++
	}
	for i := 0; i < sig.Results().Len(); i++ {
		c.resNames = append(c.resNames, sig.Results().At(i).Name())
	}
	if ct.Pkg == "" {
		c.imports = s.eng.cs.Imports[ct.File]
	} else if callee != nil {
		c.imports = s.eng.fileImports(callee)
	}
	if c.pkg == nil && ct.Pkg != "" {
		c.pkg = s.eng.typesPkg(ct.Pkg)
	}
	for _, l := range ct.Lets {
		if l.C.E != nil {
			if v, err := c.evalVal(l.C.E); err == nil {
				c.vars[l.Name] = v
			}
		}
	}
	return c
}

func (s *Sess) builtin(in ssa.CallInstruction, b *ssa.Builtin, st *State) []Val {
	com := in.Common()
	switch b.Name() {
	case "len":
		v := s.val(com.Args[0])
		switch u := com.Args[0].Type().Underlying().(type) {
		case *types.Slice:
			return []Val{{t: fmt.Sprintf("(s.len %s)", v.t), typ: tInt}}
		case *types.Basic:
			return []Val{{t: fmt.Sprintf("(str.len %s)", v.t), typ: tInt}}
		case *types.Map:
			f := s.uf("maplen:"+typeKey(u.Key()), []string{fmt.Sprintf("(Array %s Bool)", s.tc.sortOf(u.Key()))}, "Int")
			t := s.define("ml", "Int", fmt.Sprintf("(ite (= %s 0) 0 (%s (select %s %s)))", v.t, f, s.region(st, mapHasRegion(u), s.mapHasSort(u)), v.t))
			s.assume(fmt.Sprintf("(<= 0 %s)", t))
			return []Val{{t: t, typ: tInt}}
		case *types.Array:
			return []Val{{t: fmt.Sprintf("%d", u.Len()), typ: tInt}}
		case *types.Pointer:
			if arr, ok := u.Elem().Underlying().(*types.Array); ok {
				return []Val{{t: fmt.Sprintf("%d", arr.Len()), typ: tInt}}
			}
		case *types.Chan:
			s.unsupp("len of channel")
		}
	case "cap":
		v := s.val(com.Args[0])
		if _, ok := com.Args[0].Type().Underlying().(*types.Slice); ok {
			return []Val{{t: fmt.Sprintf("(s.cap %s)", v.t), typ: tInt}}
		}
	case "append":
		return []Val{s.appendCall(in, st)}
	case "copy":
		return []Val{s.copyCall(in, st)}
	case "delete":
		m := com.Args[0].Type().Underlying().(*types.Map)
		ref, k := s.val(com.Args[0]).t, s.val(com.Args[1]).t
		H := s.region(st, mapHasRegion(m), s.mapHasSort(m))
		s.setRegion(st, mapHasRegion(m), s.mapHasSort(m), fmt.Sprintf("(store %s %s (store (select %s %s) %s false))", H, ref, H, ref, k))
		return nil
	case "print", "println":
		return nil
	case "min", "max":
		op := "<="
		if b.Name() == "max" {
			op = ">="
		}
		r := s.val(com.Args[0]).t
		for _, a := range com.Args[1:] {
			x := s.val(a).t
			r = fmt.Sprintf("(ite (%s %s %s) %s %s)", op, r, x, r, x)
		}
		return []Val{{t: r, typ: com.Args[0].Type()}}
	case "ssa:wrapnilchk":
		return []Val{s.val(com.Args[0])}
	case "recover":
		return []Val{{t: "(mk-iface 0 0)", typ: types.NewInterfaceType(nil, nil)}}
	}
	s.unsupp("builtin %s", b.Name())
	sig := com.Signature()
	var out []Val
	for i := 0; i < sig.Results().Len(); i++ {
		T := sig.Results().At(i).Type()
		out = append(out, Val{t: s.fresh("bi", s.tc.sortOf(T)), typ: T})
	}
	return out
}

// constLenSlice recognises the varargs shape `slice (new [k]T)[:]` and returns k.
func constLenSlice(v ssa.Value) (int64, bool) {
	sl, ok := v.(*ssa.Slice)
	if !ok || sl.Low != nil || sl.High != nil {
		return 0, false
	}
	p, ok := sl.X.Type().Underlying().(*types.Pointer)
	if !ok {
		return 0, false
	}
	arr, ok := p.Elem().Underlying().(*types.Array)
	if !ok {
		return 0, false
	}
	return arr.Len(), true
}

func (s *Sess) appendCall(in ssa.CallInstruction, st *State) Val {
	com := in.Common()
	a := s.val(com.Args[0])
	T := com.Args[0].Type()
	sl := T.Underlying().(*types.Slice)
	key := elemRegion(sl.Elem())
	srt := s.elemSort(sl.Elem())
	if c, ok := com.Args[1].(*ssa.Const); ok && c.Value == nil {
		return a // append(s, nil...)
	}
	b := s.val(com.Args[1])
	if isString(com.Args[1].Type()) {
		// append([]byte, string...)
		H := s.region(st, key, srt)
		nb := st.top
		st.top = s.define("top", "Int", fmt.Sprintf("(+ %s 1)", st.top))
		arr := s.fresh("app", "(Array Int Int)")
		n := s.define("alen", "Int", fmt.Sprintf("(+ (s.len %s) (str.len %s))", a.t, b.t))
		s.assume(fmt.Sprintf("(forall ((i Int)) (! (=> (and (<= 0 i) (< i (s.len %s))) (= (select %s (go.ix 0 i)) (select (select %s (s.base %s)) (go.ix (s.off %s) i)))) :pattern ((select %s (go.ix 0 i)))))", a.t, arr, H, a.t, a.t, arr))
		s.assume(fmt.Sprintf("(forall ((i Int)) (! (=> (and (<= 0 i) (< i (str.len %s))) (= (select %s (go.ix 0 (+ (s.len %s) i))) (str.to_code (str.at %s i)))) :pattern ((str.at %s i))))", b.t, arr, a.t, b.t, b.t))
		s.setRegion(st, key, srt, fmt.Sprintf("(store %s %s %s)", H, nb, arr))
		cp := s.fresh("cap", "Int")
		s.assume(fmt.Sprintf("(<= %s %s)", n, cp))
		return Val{t: s.define("app", "Slice", fmt.Sprintf("(mk-slice %s 0 %s %s)", nb, n, cp)), typ: T}
	}
	if k, ok := constLenSlice(com.Args[1]); ok && k <= 8 {
		// append k known elements one at a time
		cur := a.t
		for i := int64(0); i < k; i++ {
			H := s.region(st, key, srt)
			el := s.define("ael", s.tc.sortOf(sl.Elem()), fmt.Sprintf("(select (select %s (s.base %s)) (go.ix (s.off %s) %d))", H, b.t, b.t, i))
			cur = s.appendOne(st, cur, el, sl)
		}
		return Val{t: cur, typ: T}
	}
	// general case: fresh backing store, both parts copied (quantified)
	H := s.region(st, key, srt)
	nb := st.top
	st.top = s.define("top", "Int", fmt.Sprintf("(+ %s 1)", st.top))
	es := s.tc.sortOf(sl.Elem())
	arr := s.fresh("app", fmt.Sprintf("(Array Int %s)", es))
	n := s.define("alen", "Int", fmt.Sprintf("(+ (s.len %s) (s.len %s))", a.t, b.t))
	s.assume(fmt.Sprintf("(forall ((i Int)) (! (=> (and (<= 0 i) (< i (s.len %s))) (= (select %s (go.ix 0 i)) (select (select %s (s.base %s)) (go.ix (s.off %s) i)))) :pattern ((select %s (go.ix 0 i)))))", a.t, arr, H, a.t, a.t, arr))
	s.assume(fmt.Sprintf("(forall ((i Int)) (! (=> (and (<= 0 i) (< i (s.len %s))) (= (select %s (go.ix 0 (+ (s.len %s) i))) (select (select %s (s.base %s)) (go.ix (s.off %s) i)))) :pattern ((select (select %s (s.base %s)) (go.ix (s.off %s) i)))))", b.t, arr, a.t, H, b.t, b.t, H, b.t, b.t))
	// reverse direction so that reads of the result find their source
	s.assume(fmt.Sprintf("(forall ((j Int)) (! (=> (and (<= (s.len %s) j) (< j %s)) (= (select %s (go.ix 0 j)) (select (select %s (s.base %s)) (go.ix (s.off %s) (- j (s.len %s)))))) :pattern ((select %s (go.ix 0 j)))))", a.t, n, arr, H, b.t, b.t, a.t, arr))
	s.setRegion(st, key, srt, fmt.Sprintf("(store %s %s %s)", H, nb, arr))
	cp := s.fresh("cap", "Int")
	s.assume(fmt.Sprintf("(<= %s %s)", n, cp))
	// NOTE: when len(a)+len(b) <= cap(a) Go appends in place; the in-place write is visible only
	// through other slices sharing a's backing store beyond len(a). That aliasing is not modelled
	// for multi-element appends of unknown length (listed assumption).
	return Val{t: s.define("app", "Slice", fmt.Sprintf("(mk-slice %s 0 %s %s)", nb, n, cp)), typ: T}
}

// appendOne: Go semantics of append(s, x): in place when len < cap (visible to aliases), else a
// fresh backing store holding a copy. The copy keeps the element indices (off unchanged).
func (s *Sess) appendOne(st *State, sv, el string, sl *types.Slice) string {
	key := elemRegion(sl.Elem())
	srt := s.elemSort(sl.Elem())
	H := s.region(st, key, srt)
	svn := s.define("as", "Slice", sv)
	inplace := s.define("inpl", "Bool", fmt.Sprintf("(< (s.len %s) (s.cap %s))", svn, svn))
	nb := st.top
	st.top = s.define("top", "Int", fmt.Sprintf("(+ %s 1)", st.top))
	ncap := s.fresh("cap", "Int")
	s.assume(fmt.Sprintf("(< (s.len %s) %s)", svn, ncap))
	target := s.define("abase", "Int", fmt.Sprintf("(ite %s (s.base %s) %s)", inplace, svn, nb))
	s.setRegion(st, key, srt, fmt.Sprintf("(store %s %s (store (select %s (s.base %s)) (go.ix (s.off %s) (s.len %s)) %s))", H, target, H, svn, svn, svn, el))
	return s.define("app", "Slice", fmt.Sprintf("(mk-slice %s (s.off %s) (+ (s.len %s) 1) (ite %s (s.cap %s) %s))", target, svn, svn, inplace, svn, ncap))
}

func (s *Sess) copyCall(in ssa.CallInstruction, st *State) Val {
	com := in.Common()
	dst := s.val(com.Args[0])
	src := s.val(com.Args[1])
	sl := com.Args[0].Type().Underlying().(*types.Slice)
	key := elemRegion(sl.Elem())
	srt := s.elemSort(sl.Elem())
	H := s.region(st, key, srt)
	var srcLen string
	var srcAt func(i string) string
	if isString(com.Args[1].Type()) {
		srcLen = fmt.Sprintf("(str.len %s)", src.t)
		srcAt = func(i string) string { return fmt.Sprintf("(str.to_code (str.at %s %s))", src.t, i) }
	} else {
		srcLen = fmt.Sprintf("(s.len %s)", src.t)
		srcAt = func(i string) string {
			return fmt.Sprintf("(select (select %s (s.base %s)) (go.ix (s.off %s) %s))", H, src.t, src.t, i)
		}
	}
	n := s.define("cpn", "Int", fmt.Sprintf("(ite (<= (s.len %s) %s) (s.len %s) %s)", dst.t, srcLen, dst.t, srcLen))
	es := s.tc.sortOf(sl.Elem())
	arr := s.fresh("cpy", fmt.Sprintf("(Array Int %s)", es))
	oldArr := fmt.Sprintf("(select %s (s.base %s))", H, dst.t)
	s.assume(fmt.Sprintf("(forall ((i Int)) (! (= (select %s i) (ite (and (<= (s.off %s) i) (< i (+ (s.off %s) %s))) %s (select %s i))) :pattern ((select %s i))))",
		arr, dst.t, dst.t, n, srcAt(fmt.Sprintf("(- i (s.off %s))", dst.t)), oldArr, arr))
	s.setRegion(st, key, srt, fmt.Sprintf("(store %s (s.base %s) %s)", H, dst.t, arr))
	return Val{t: n, typ: tInt}
}

// checkAssertsAt evaluates the program-point assertions attached to this call.
func (s *Sess) checkAssertsAt(in ssa.CallInstruction, name string, st *State) {
	if s.ct == nil || len(s.ct.Asserts) == 0 {
		return
	}
	short := shortName(name)
	// method names like "(*pkg.T).m" -> also accept the bare method/function name
	bare := short
	if i := strings.LastIndex(bare, "."); i >= 0 {
		bare = bare[i+1:]
	}
	ord := s.callOrdByBare(in, bare)
	for _, a := range s.ct.Asserts {
		if (a.Callee != bare && a.Callee != short) || a.Ord != ord || a.C.E == nil {
			continue
		}
		c := s.funcEnv(st, s.entry, nil)
		instr := in.(ssa.Instruction)
		c.lookup = func(n string) (Val, bool) { return s.resolveLocalAt(instr, n, st) }
		// the call's explicit arguments are arg0, arg1, ... (receiver excluded for interface calls)
		for i, av := range in.Common().Args {
			if v := s.val(av); v.place == nil && v.t != "" {
				c.vars[fmt.Sprintf("arg%d", i)] = v
			}
		}
		f, err := c.evalBool(a.C.E)
		if err != nil {
			s.detached("assert at %s#%d %q: %v", a.Callee, a.Ord, a.C.Src, err)
			continue
		}
		s.oblige(st, "assert", "assert."+labelOr(a.C.Label, a.Ord), f, in.Pos(), a.C.Src)
		a.seen = true
	}
}

func (s *Sess) callOrdByBare(in ssa.CallInstruction, bare string) int {
	n := 0
	for _, b := range s.fn.Blocks {
		for _, i := range b.Instrs {
			ci, ok := i.(ssa.CallInstruction)
			if !ok {
				continue
			}
			if ci == in {
				return n
			}
			nm := shortName(s.eng.calleeName(ci.Common()))
			if j := strings.LastIndex(nm, "."); j >= 0 {
				nm = nm[j+1:]
			}
			if nm == bare {
				n++
			}
		}
	}
	return n
}

// resolveLocalAt maps a source-level local name to its value just before instruction at.
func (s *Sess) resolveLocalAt(at ssa.Instruction, name string, st *State) (Val, bool) {
	for _, b := range s.fn.Blocks {
		for _, in := range b.Instrs {
			if a, ok := in.(*ssa.Alloc); ok && a.Comment == name {
				if av, ok := s.env[a]; ok {
					T := derefType(a.Type())
					return Val{t: s.load(st, av, T), typ: T}, true
				}
			}
		}
	}
	// The value of a source variable just before `at`: among the SSA values the variable takes
	// (definitions and uses carry a DebugRef), the latest one whose definition dominates `at`,
	// provided no other value of the variable can reach `at` behind its back (a branch-local
	// assignment whose merging phi is never named). An ambiguous name does not resolve, and the
	// clause that mentions it is reported as detached rather than evaluated on a stale value.
	refs := s.debugRefs[name]
	if at.Pos().IsValid() {
		// shadowing: keep the declaration the name denotes at the site (Go scoping rules)
		var obj types.Object
		if s.fn.Pkg != nil && s.fn.Pkg.Pkg != nil {
			if inner := s.fn.Pkg.Pkg.Scope().Innermost(at.Pos()); inner != nil {
				_, obj = inner.LookupParent(name, at.Pos())
			}
		}
		if obj != nil {
			found := false
			for _, d := range refs {
				if d.Object() == obj {
					found = true
				}
			}
			if !found {
				obj = nil
			}
		}
		if obj != nil {
			var keep []*ssa.DebugRef
			for _, d := range refs {
				if d.Object() == obj {
					keep = append(keep, d)
				}
			}
			refs = keep
		}
	}
	type defPt struct {
		b   *ssa.BasicBlock
		idx int
	}
	entry := s.fn.Blocks[0]
	pointOf := func(v ssa.Value) defPt {
		if in, ok := v.(ssa.Instruction); ok && in.Block() != nil {
			for i, x := range in.Block().Instrs {
				if x == in {
					return defPt{in.Block(), i}
				}
			}
		}
		return defPt{entry, -1}
	}
	atPt := defPt{at.Block(), 0}
	for i, x := range at.Block().Instrs {
		if x == at {
			atPt.idx = i
		}
	}
	before := func(a, b defPt) bool { // a's definition dominates point b
		if a.b == b.b {
			return a.idx < b.idx
		}
		return a.b.Dominates(b.b)
	}
	var vals []ssa.Value
	seenV := map[ssa.Value]bool{}
	for _, d := range refs {
		if d.IsAddr || seenV[d.X] {
			continue
		}
		seenV[d.X] = true
		vals = append(vals, d.X)
	}
	var cur ssa.Value
	var curPt defPt
	for _, v := range vals {
		p := pointOf(v)
		if !before(p, atPt) {
			continue
		}
		if cur == nil || before(curPt, p) {
			cur, curPt = v, p
		}
	}
	if cur == nil {
		return Val{}, false
	}
	for _, w := range vals {
		if w == cur {
			continue
		}
		p := pointOf(w)
		if before(p, atPt) || !before(curPt, p) {
			continue // an earlier value, or one on a path that passes the current definition again
		}
		// w is assigned after cur: can it reach `at` without passing cur's block again?
		seen := map[*ssa.BasicBlock]bool{curPt.b: true}
		stack := append([]*ssa.BasicBlock{}, p.b.Succs...)
		for len(stack) > 0 {
			b := stack[len(stack)-1]
			stack = stack[:len(stack)-1]
			if seen[b] {
				continue
			}
			seen[b] = true
			if b == atPt.b {
				return Val{}, false // ambiguous
			}
			stack = append(stack, b.Succs...)
		}
	}
	v := s.val(cur)
	if v.place == nil {
		return v, true
	}
	return Val{}, false
}

// fmtIntrinsic gives fmt.Sprintf / fmt.Errorf with a constant format made only of %s %d %v %q
// and literal text their exact meaning for string and integer arguments (library semantics,
// listed as an assumption). Anything else falls through to the generic pure treatment.
func (s *Sess) fmtIntrinsic(in ssa.CallInstruction, name string, args []Val, st *State) ([]Val, bool) {
	if name != "fmt.Sprintf" && name != "fmt.Errorf" {
		return nil, false
	}
	com := in.Common()
	fc, ok := com.Args[0].(*ssa.Const)
	if !ok || fc.Value == nil {
		return nil, false
	}
	format := constantStr(fc)
	var parts []string
	argi := 0
	sl := args[1]
	H := s.region(st, elemRegion(types.NewInterfaceType(nil, nil)), s.elemSort(types.NewInterfaceType(nil, nil)))
	lit := ""
	flush := func() {
		if lit != "" {
			parts = append(parts, smtStr(lit))
			lit = ""
		}
	}
	exact := true
	for i := 0; i < len(format); i++ {
		ch := format[i]
		if ch != '%' {
			lit += string(ch)
			continue
		}
		if i+1 >= len(format) {
			return nil, false
		}
		v := format[i+1]
		i++
		if v == '%' {
			lit += "%"
			continue
		}
		// optional zero flag and width for %d (e.g. %4d, %02d)
		zeroPad := false
		width := 0
		if v == '0' && i+1 < len(format) {
			zeroPad = true
			i++
			v = format[i]
		}
		for v >= '1' && v <= '9' || (width > 0 && v == '0') {
			width = width*10 + int(v-'0')
			if i+1 >= len(format) {
				return nil, false
			}
			i++
			v = format[i]
		}
		if (zeroPad || width > 0) && (v != 'd' || width > 12) {
			return nil, false
		}
		if v != 's' && v != 'd' && v != 'v' && v != 'q' && v != 'w' {
			return nil, false
		}
		flush()
		el := s.define("fa", "Iface", fmt.Sprintf("(select (select %s (s.base %s)) (go.ix (s.off %s) %d))", H, sl.t, sl.t, argi))
		staticArg := varargElem(com.Args[1], argi)
		argi++
		strTag := s.tc.tagOf(types.Typ[types.String])
		_, unS := s.boxFns(types.Typ[types.String])
		opaque := fmt.Sprintf("(%s %s)", s.uf("fmt.verb."+string(v), []string{"Iface"}, "String"), el)
		if staticArg != nil {
			sv := s.val(staticArg)
			if isString(staticArg.Type()) && (v == 's' || v == 'v') {
				parts = append(parts, sv.t)
				continue
			}
			if isInteger(staticArg.Type()) && (v == 'd' || v == 'v') {
				x := sv.t
				plain := fmt.Sprintf("(ite (>= %s 0) (str.from_int %s) (str.++ \"-\" (str.from_int (- %s))))", x, x, x)
				if width > 0 {
					plain = s.paddedInt(x, width, zeroPad, opaque)
				}
				parts = append(parts, plain)
				continue
			}
		}
		switch v {
		case 's', 'v':
			t := fmt.Sprintf("(ite (= (i.tag %s) %d) (%s (i.val %s))", el, strTag, unS, el)
			closes := ")"
			for _, it := range []types.Type{types.Typ[types.Int], types.Typ[types.Int32], types.Typ[types.Int64]} {
				if v == 's' {
					break
				}
				_, unI := s.boxFns(it)
				x := fmt.Sprintf("(%s (i.val %s))", unI, el)
				t += fmt.Sprintf(" (ite (= (i.tag %s) %d) (ite (>= %s 0) (str.from_int %s) (str.++ \"-\" (str.from_int (- %s))))", el, s.tc.tagOf(it), x, x, x)
				closes += ")"
			}
			parts = append(parts, t+" "+opaque+closes)
		case 'd':
			t := ""
			closes := ""
			for _, it := range []types.Type{types.Typ[types.Int], types.Typ[types.Int32], types.Typ[types.Int64]} {
				_, unI := s.boxFns(it)
				x := s.define("fx", "Int", fmt.Sprintf("(%s (i.val %s))", unI, el))
				plain := fmt.Sprintf("(ite (>= %s 0) (str.from_int %s) (str.++ \"-\" (str.from_int (- %s))))", x, x, x)
				if width > 0 {
					// non-negative values: left-padded to the width with spaces or zeros
					digits := s.define("fd", "String", fmt.Sprintf("(str.from_int %s)", x))
					// true facts about decimal rendering that the string solvers do not derive themselves
					s.assume(fmt.Sprintf("(=> (>= %s 0) (and (str.in_re %s (re.+ (re.range \"0\" \"9\"))) (=> (< %s 10) (= (str.len %s) 1)) (=> (and (<= 10 %s) (< %s 100)) (= (str.len %s) 2)) (=> (and (<= 100 %s) (< %s 1000)) (= (str.len %s) 3)) (=> (and (<= 1000 %s) (< %s 10000)) (= (str.len %s) 4)) (=> (<= 10000 %s) (>= (str.len %s) 5))))", x, digits, x, digits, x, x, digits, x, x, digits, x, x, digits, x, digits))
					padded := digits
					padc := " "
					if zeroPad {
						padc = "0"
					}
					for k := 1; k < width; k++ {
						padded = fmt.Sprintf("(ite (= (str.len %s) %d) (str.++ %s %s) %s)", digits, width-k, smtStr(strings.Repeat(padc, k)), digits, padded)
					}
					if zeroPad {
						// zero-padded rendering of 0 <= x < 10^width is exactly `width` decimal digits
						pd := s.define("fp", "String", padded)
						s.assume(fmt.Sprintf("(=> (and (>= %s 0) (< %s %s)) (str.in_re %s ((_ re.loop %d %d) (re.range \"0\" \"9\"))))", x, x, "1"+strings.Repeat("0", width), pd, width, width))
						padded = pd
					}
					plain = fmt.Sprintf("(ite (>= %s 0) %s %s)", x, padded, opaque)
				}
				t += fmt.Sprintf("(ite (= (i.tag %s) %d) %s ", el, s.tc.tagOf(it), plain)
				closes += ")"
			}
			parts = append(parts, t+opaque+closes)
		default:
			exact = false
			parts = append(parts, opaque)
		}
	}
	flush()
	_ = exact
	var str string
	switch len(parts) {
	case 0:
		str = `""`
	case 1:
		str = parts[0]
	default:
		str = "(str.++ " + strings.Join(parts, " ") + ")"
	}
	s.trustedUsed["fmt."+strings.TrimPrefix(name, "fmt.")+" (intrinsic: %s %d %v on strings and ints)"] = true
	if name == "fmt.Sprintf" {
		return []Val{{t: s.define("spf", "String", str), typ: tString}}, true
	}
	f := s.uf("fmt.Errorf.of", []string{"String"}, "Iface")
	e := s.define("err", "Iface", fmt.Sprintf("(%s %s)", f, str))
	s.assume(fmt.Sprintf("(> (i.tag %s) 0)", e))
	return []Val{{t: e, typ: com.Signature().Results().At(0).Type()}}, true
}

func constantStr(c *ssa.Const) string {
	if c.Value == nil {
		return ""
	}
	return constant.StringVal(c.Value)
}

// checkAssertsAtReturn evaluates `assert at return#k` clauses (k-th return statement in source order).
func (s *Sess) checkAssertsAtReturn(ret *ssa.Return, st *State) {
	if s.ct == nil || len(s.ct.Asserts) == 0 {
		return
	}
	var rets []*ssa.Return
	for _, b := range s.fn.Blocks {
		for _, in := range b.Instrs {
			if r, ok := in.(*ssa.Return); ok {
				rets = append(rets, r)
			}
		}
	}
	// source order; the implicit return at the end of a function without results has no position
	// and counts last
	sort.SliceStable(rets, func(i, j int) bool {
		pi, pj := rets[i].Pos(), rets[j].Pos()
		if (pi == token.NoPos) != (pj == token.NoPos) {
			return pj == token.NoPos
		}
		return pi < pj
	})
	ord := -1
	for i, r := range rets {
		if r == ret {
			ord = i
		}
	}
	for _, a := range s.ct.Asserts {
		if a.Callee != "return" || a.Ord != ord || a.C.E == nil {
			continue
		}
		// the values being returned are result0, result1, ...
		var rvals []Val
		for _, rv := range ret.Results {
			v := s.val(rv)
			if v.place != nil || v.t == "" {
				rvals = nil
				break
			}
			rvals = append(rvals, v)
		}
		c := s.funcEnv(st, s.entry, rvals)
		c.lookup = func(n string) (Val, bool) { return s.resolveLocalAt(ret, n, st) }
		f, err := c.evalBool(a.C.E)
		if err != nil {
			s.detached("assert at return#%d %q: %v", a.Ord, a.C.Src, err)
			continue
		}
		if ob := s.oblige(st, "assert", "assert."+labelOr(a.C.Label, a.Ord), f, ret.Pos(), a.C.Src); ob != nil {
			// an assertion at a return is not assumed by the postconditions checked after it: if it is a
			// listed known finding, the rest of that return is still checked for real
			ob.NoAssume = true
		}
		a.seen = true
	}
}

// varargElem finds the value stored at index k of a varargs slice `slice (new [n]any)[:]`.
func varargElem(v ssa.Value, k int) ssa.Value {
	sl, ok := v.(*ssa.Slice)
	if !ok {
		return nil
	}
	al, ok := sl.X.(*ssa.Alloc)
	if !ok {
		return nil
	}
	for _, ref := range *al.Referrers() {
		ia, ok := ref.(*ssa.IndexAddr)
		if !ok {
			continue
		}
		c, ok := ia.Index.(*ssa.Const)
		if !ok || c.Value == nil || c.Int64() != int64(k) {
			continue
		}
		for _, r2 := range *ia.Referrers() {
			if st, ok := r2.(*ssa.Store); ok && st.Addr == ia {
				if mi, ok := st.Val.(*ssa.MakeInterface); ok {
					return mi.X
				}
			}
		}
	}
	return nil
}

// paddedInt renders a non-negative integer left-padded to width with spaces or zeros (fmt %Nd/%0Nd).
func (s *Sess) paddedInt(x string, width int, zeroPad bool, opaque string) string {
	digits := s.define("fd", "String", fmt.Sprintf("(str.from_int %s)", x))
	s.assume(fmt.Sprintf("(=> (>= %s 0) (and (str.in_re %s (re.+ (re.range \"0\" \"9\"))) (=> (< %s 10) (= (str.len %s) 1)) (=> (and (<= 10 %s) (< %s 100)) (= (str.len %s) 2)) (=> (and (<= 100 %s) (< %s 1000)) (= (str.len %s) 3)) (=> (and (<= 1000 %s) (< %s 10000)) (= (str.len %s) 4)) (=> (<= 10000 %s) (>= (str.len %s) 5))))", x, digits, x, digits, x, x, digits, x, x, digits, x, x, digits, x, digits))
	padded := digits
	padc := " "
	if zeroPad {
		padc = "0"
	}
	for k := 1; k < width; k++ {
		padded = fmt.Sprintf("(ite (= (str.len %s) %d) (str.++ %s %s) %s)", digits, width-k, smtStr(strings.Repeat(padc, k)), digits, padded)
	}
	if zeroPad {
		pd := s.define("fp", "String", padded)
		s.assume(fmt.Sprintf("(=> (and (>= %s 0) (< %s %s)) (str.in_re %s ((_ re.loop %d %d) (re.range \"0\" \"9\"))))", x, x, "1"+strings.Repeat("0", width), pd, width, width))
		padded = pd
	}
	return fmt.Sprintf("(ite (>= %s 0) %s %s)", x, padded, opaque)
}

// shouldInline: generated protobuf getters (nil-safe field readers) are executed in place instead
// of being havoced; their bodies are loop-free and a few blocks long.
func (s *Sess) shouldInline(f *ssa.Function) bool {
	if f.Blocks == nil || s.inlineDepth >= 3 || len(f.Blocks) > 10 || f == s.fn {
		return false
	}
	for _, g := range s.inlineStack {
		if g == f {
			return false // recursion
		}
	}
	getter := f.Signature.Recv() != nil && strings.HasPrefix(f.Name(), "Get") && f.Signature.Params().Len() == 0
	if getter {
		if _, ok := f.Signature.Recv().Type().Underlying().(*types.Pointer); !ok {
			getter = false
		}
	}
	// small loop-free helpers of the repository without a contract are executed in place: exact,
	// and it keeps an "extract helper" refactoring from detaching the caller's proof
	helper := s.eng.inRepo(f) && len(f.Blocks) <= 6 && f.Synthetic == ""
	if !getter && !helper {
		return false
	}
	n := 0
	for _, b := range f.Blocks {
		for _, sc := range b.Succs {
			if sc.Dominates(b) {
				return false // loop
			}
		}
		for _, in := range b.Instrs {
			n++
			switch x := in.(type) {
			case *ssa.Defer, *ssa.Go, *ssa.Select, *ssa.Panic, *ssa.MakeClosure, *ssa.Range:
				return false
			case ssa.CallInstruction:
				if getter {
					c := x.Common().StaticCallee()
					if c == nil || !strings.HasPrefix(c.Name(), "Get") {
						return false
					}
				}
			}
		}
	}
	if getter {
		return n <= 60
	}
	return n <= 40
}

// inlineCall executes the callee's body symbolically in the caller's session.
func (s *Sess) inlineCall(f *ssa.Function, args []Val, st *State) ([]Val, bool) {
	if len(args) != len(f.Params) {
		return nil, false
	}
	savedPrefix, savedRets, savedFn := s.namePrefix, s.rets, s.fn
	s.nInline++
	s.namePrefix = fmt.Sprintf("%si%d.", savedPrefix, s.nInline)
	s.rets = nil
	s.inlineDepth++
	s.inlineStack = append(s.inlineStack, f)
	defer func() {
		s.namePrefix, s.rets = savedPrefix, savedRets
		s.inlineDepth--
		s.inlineStack = s.inlineStack[:len(s.inlineStack)-1]
		s.fn = savedFn
	}()
	for i, p := range f.Params {
		s.env[p] = args[i]
	}
	// blocks in reverse postorder
	seen := map[*ssa.BasicBlock]bool{}
	var post []*ssa.BasicBlock
	var dfs func(b *ssa.BasicBlock)
	dfs = func(b *ssa.BasicBlock) {
		seen[b] = true
		for _, sc := range b.Succs {
			if !seen[sc] {
				dfs(sc)
			}
		}
		post = append(post, b)
	}
	dfs(f.Blocks[0])
	for i := len(post) - 1; i >= 0; i-- {
		b := post[i]
		var bs *State
		if b == f.Blocks[0] {
			bs = st.clone()
		} else {
			bs = s.mergeStates(b, b.Preds)
		}
		for _, in := range b.Instrs {
			s.exec(in, bs)
		}
		s.out[b] = bs
	}
	rets := s.rets
	for _, b := range post {
		delete(s.out, b)
	}
	if len(rets) == 0 {
		return nil, false
	}
	// merge the returns back into the caller's state
	var conds []string
	for _, r := range rets {
		conds = append(conds, r.st.reach)
	}
	ite := func(terms []string) string {
		r := terms[len(terms)-1]
		for i := len(terms) - 2; i >= 0; i-- {
			if terms[i] != r {
				r = fmt.Sprintf("(ite %s %s %s)", conds[i], terms[i], r)
			}
		}
		return r
	}
	keys := map[string]bool{}
	for _, r := range rets {
		for k := range r.st.heap {
			keys[k] = true
		}
	}
	newHeap := map[string]string{}
	for _, k := range sortedKeys(keys) {
		var terms []string
		for _, r := range rets {
			t, ok := r.st.heap[k]
			if !ok {
				t = s.baseTerm(r.st.base, k, s.regionSort[k])
			}
			terms = append(terms, t)
		}
		newHeap[k] = s.define("Hi:"+k, s.regionSort[k], ite(terms))
	}
	var tops []string
	for _, r := range rets {
		tops = append(tops, r.st.top)
	}
	st.heap = newHeap
	st.top = s.define("top", "Int", ite(tops))
	st.base = rets[0].st.base
	var out []Val
	for i := 0; i < f.Signature.Results().Len(); i++ {
		T := f.Signature.Results().At(i).Type()
		var terms []string
		for _, r := range rets {
			terms = append(terms, r.vals[i].t)
		}
		out = append(out, Val{t: s.define("ir", s.tc.sortOf(T), ite(terms)), typ: T})
	}
	s.inlined[f.String()] = true
	return out, true
}

// havocModsAtCall havocs the callee's mod set. When that is the whole heap, local variables of this
// function that live in heap cells (because a closure captures them) but are private -- their address
// is only loaded from, stored to, or bound into closures that are called directly or handed to
// in-repo callees that only call them -- keep their contents, unless this very call receives a
// closure that captures them (then the callee may run it).
func (s *Sess) havocModsAtCall(st *State, mod map[string]bool, pre *State, in ssa.CallInstruction) {
	type keep struct{ key, sort, addr, old string }
	var keeps []keep
	passed := map[*ssa.Alloc]bool{}
	// closures handed to this call, or to any call of this function being inlined around it
	for _, site := range append(append([]ssa.CallInstruction{}, s.inlineSites...), in) {
		for _, a := range append(append([]ssa.Value{}, site.Common().Args...), site.Common().Value) {
			if mc, ok := a.(*ssa.MakeClosure); ok {
				for _, b := range mc.Bindings {
					if al, ok := b.(*ssa.Alloc); ok {
						passed[al] = true
					}
				}
			}
		}
	}
	blk := in.(ssa.Instruction).Block()
	if len(s.inlineSites) > 0 {
		blk = s.inlineSites[0].(ssa.Instruction).Block()
	}
	for _, al := range s.privateCells() {
		if passed[al] || !al.Block().Dominates(blk) {
			continue
		}
		av, ok := s.env[al]
		if !ok || av.place != nil || av.t == "" {
			continue
		}
		T := derefType(al.Type())
		switch T.Underlying().(type) {
		case *types.Struct, *types.Array:
			continue
		}
		key := cellRegion(T)
		if !mod["*"] && !mod[key] {
			continue
		}
		sort := s.elemSort(T)
		keeps = append(keeps, keep{key, sort, av.t, s.region(st, key, sort)})
	}
	s.havocMods(st, mod, pre.top)
	for _, k := range keeps {
		s.assumeAt(st, fmt.Sprintf("(= (select %s %s) (select %s %s))", s.region(st, k.key, k.sort), k.addr, k.old, k.addr))
	}
}

// privateCells lists the heap-allocated local variables of the function whose address never leaks.
func (s *Sess) privateCells() []*ssa.Alloc {
	if s.privCells != nil {
		return *s.privCells
	}
	var out []*ssa.Alloc
	for _, b := range s.fn.Blocks {
		for _, in := range b.Instrs {
			al, ok := in.(*ssa.Alloc)
			if !ok || !al.Heap || al.Referrers() == nil {
				continue
			}
			private := true
			for _, r := range *al.Referrers() {
				switch r := r.(type) {
				case *ssa.Store:
					if r.Val == ssa.Value(al) {
						private = false
					}
				case *ssa.UnOp, *ssa.DebugRef:
				case *ssa.MakeClosure:
					if !s.closureStaysLocal(r) {
						private = false
					}
				default:
					private = false
				}
			}
			if private {
				out = append(out, al)
			}
		}
	}
	s.privCells = &out
	if os.Getenv("GOVC_V") == "2" {
		for _, al := range out {
			fmt.Fprintf(os.Stderr, "private cell: %s %s\n", al.Name(), al.Comment)
		}
	}
	return out
}

// closureStaysLocal: the closure value is only called directly, deferred, or passed to in-repo
// functions that do nothing with that parameter but call it.
func (s *Sess) closureStaysLocal(mc *ssa.MakeClosure) bool {
	if mc.Referrers() == nil {
		return false
	}
	for _, r := range *mc.Referrers() {
		switch r := r.(type) {
		case *ssa.DebugRef:
		case ssa.CallInstruction:
			com := r.Common()
			if com.Value == ssa.Value(mc) {
				if _, isGo := r.(*ssa.Go); isGo {
					return false
				}
				continue
			}
			callee := com.StaticCallee()
			if callee == nil || com.IsInvoke() || callee.Blocks == nil || !s.eng.inRepo(callee) {
				return false
			}
			if _, isGo := r.(*ssa.Go); isGo {
				return false
			}
			for i, a := range com.Args {
				if a != ssa.Value(mc) {
					continue
				}
				if i >= len(callee.Params) || !paramOnlyCalled(callee.Params[i]) {
					return false
				}
			}
		default:
			return false
		}
	}
	return true
}

func paramOnlyCalled(p *ssa.Parameter) bool {
	if p.Referrers() == nil {
		return true
	}
	for _, r := range *p.Referrers() {
		switch r := r.(type) {
		case *ssa.DebugRef:
		case *ssa.Call:
			if r.Common().Value != ssa.Value(p) {
				return false
			}
			for _, a := range r.Common().Args {
				if a == ssa.Value(p) {
					return false
				}
			}
		default:
			return false
		}
	}
	return true
}

// sortFuncIntrinsic models slices.SortFunc(x, cmp) for a comparator that is a closure of the repository
// under contract: the elements of x are permuted (here: havoced), and afterwards every pair in index
// order satisfies the comparator's contract with a non-positive result. The comparator's own contract
// is checked against its body like any other function's.
func (s *Sess) sortFuncIntrinsic(in ssa.CallInstruction, name string, args []Val, st *State) bool {
	if name != "slices.SortFunc" && name != "slices.SortStableFunc" {
		return false
	}
	com := in.Common()
	if len(com.Args) != 2 || len(args) < 2 {
		return false
	}
	mc, ok := com.Args[1].(*ssa.MakeClosure)
	var cf *ssa.Function
	if ok {
		cf, _ = mc.Fn.(*ssa.Function)
	} else if f, ok := com.Args[1].(*ssa.Function); ok {
		cf = f
	}
	if cf == nil || len(cf.Params) != 2 {
		return false
	}
	ct := s.eng.contractFor(cf)
	if ct == nil || len(ct.Ensures) == 0 {
		return false
	}
	sl, ok := com.Args[0].Type().Underlying().(*types.Slice)
	if !ok {
		return false
	}
	x := args[0]
	key := elemRegion(sl.Elem())
	srt := s.elemSort(sl.Elem())
	// permutation of the elements: the backing store of x is havoced (a coarse model: contents are
	// not related to the contents before, only the order fact below is known)
	s.havocRegion(st, key)
	H := s.region(st, key, srt)
	s.nfresh++
	rf := fmt.Sprintf("|sortres!%d|", s.nfresh)
	s.emitDecl(fmt.Sprintf("(declare-fun %s (Int Int) Int)", rf))
	iv, jv := fmt.Sprintf("|si!%d|", s.nfresh), fmt.Sprintf("|sj!%d|", s.nfresh)
	elem := func(ix string) string {
		return fmt.Sprintf("(select (select %s (s.base %s)) (go.ix (s.off %s) %s))", H, x.t, x.t, ix)
	}
	ce := &CEnv{s: s, vars: map[string]Val{}, heap: st, old: st, pkg: cf.Pkg.Pkg}
	if cf.Pkg == nil && cf.Parent() != nil {
		ce.pkg = cf.Parent().Pkg.Pkg
	}
	ce.imports = s.eng.fileImports(cf)
	ce.vars[cf.Params[0].Name()] = Val{t: elem(iv), typ: sl.Elem()}
	ce.vars[cf.Params[1].Name()] = Val{t: elem(jv), typ: sl.Elem()}
	ce.results = []Val{{t: fmt.Sprintf("(%s %s %s)", rf, iv, jv), typ: types.Typ[types.Int]}}
	var conj []string
	for _, e := range ct.Ensures {
		if e.E == nil {
			continue
		}
		f, err := ce.evalAssume(e.E)
		if err != nil {
			s.detached("slices.SortFunc comparator %s ensures %q: %v", cf.Name(), e.Src, err)
			return false
		}
		conj = append(conj, f)
	}
	conj = append(conj, fmt.Sprintf("(<= (%s %s %s) 0)", rf, iv, jv))
	s.trustedUsed["slices.SortFunc orders the slice by its comparator (engine model: every pair in index order satisfies the comparator's contract with a non-positive result)"] = true
	s.assumeAt(st, fmt.Sprintf("(forall ((%s Int) (%s Int)) (! (=> (and (<= 0 %s) (< %s %s) (< %s (s.len %s))) %s) :pattern (%s %s)))", iv, jv, iv, iv, jv, jv, x.t, and(conj...), elem(iv), elem(jv)))
	return true
}
