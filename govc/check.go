package main

import (
	"encoding/json"
	"flag"
	"fmt"
	"os"
	"path/filepath"
	"sort"
	"strconv"
	"strings"
	"sync"
	"time"

	"golang.org/x/tools/go/ssa"
)

type PropConfig struct {
	ID        string   `json:"id"`
	Packages  []string `json:"packages"`
	Verify    []string `json:"verify"`   // pkgpath::func or pkgpath::* ; contracts + safety obligations
	Exclude   []string `json:"exclude"`  // pkgpath::func excluded from ::* expansion
	VerifyFiles []string `json:"verify_files"` // repo-relative files: every function declared in them
	NilCheck  []string `json:"nilcheck"` // functions (keys) whose nil dereferences are also obligations
	ParsedOptions bool `json:"parsed_options"` // the messages read are descriptor options normalised by protodesc (set oneof arms hold messages)
	NilCheckFiles []string `json:"nilcheck_files"` // repo-relative files: nil dereferences and calls on nil interfaces are obligations in every function declared there
	MinObligations int `json:"min_obligations"`
	Assumptions []string `json:"assumptions"`
	NotReached  []string `json:"not_reached"`
	Mutants   []string `json:"mutants"` // selftest patches (thorough tier)
}

type knownFinding struct {
	Kind       string // "finding" or "fixed"
	Property   string
	Obligation string
	Text       string
}

func loadFindings(path string) []knownFinding {
	b, err := os.ReadFile(path)
	if err != nil {
		return nil
	}
	var out []knownFinding
	for _, l := range strings.Split(string(b), "\n") {
		l = strings.TrimSpace(l)
		if l == "" || strings.HasPrefix(l, "#") {
			continue
		}
		var kf knownFinding
		switch {
		case strings.HasPrefix(l, "finding:"):
			kf.Kind = "finding"
			l = strings.TrimSpace(strings.TrimPrefix(l, "finding:"))
		case strings.HasPrefix(l, "fixed:"):
			kf.Kind = "fixed"
			l = strings.TrimSpace(strings.TrimPrefix(l, "fixed:"))
		default:
			continue
		}
		for _, f := range strings.Fields(l) {
			if strings.HasPrefix(f, "property=") {
				kf.Property = strings.TrimPrefix(f, "property=")
			} else if strings.HasPrefix(f, "obligation=") {
				kf.Obligation = strings.TrimPrefix(f, "obligation=")
			}
		}
		// the text printed after "KNOWN-FINDING: property=<id> " is the entry without its property= token
		var rest []string
		for _, f := range strings.Fields(l) {
			if !strings.HasPrefix(f, "property=") {
				rest = append(rest, f)
			}
		}
		kf.Text = strings.Join(rest, " ")
		out = append(out, kf)
	}
	return out
}

func cmdCheck(args []string) {
	fs := flag.NewFlagSet("check", flag.ExitOnError)
	repo := fs.String("repo", "/repo", "")
	verif := fs.String("verif", "/verif", "")
	prop := fs.String("prop", "", "property id")
	tier := fs.String("tier", "", "quick|thorough")
	fs.Parse(args)
	if *tier == "" {
		*tier = os.Getenv("VERIF_TIER")
	}
	if *tier == "" {
		*tier = "quick"
	}
	seed, _ := strconv.Atoi(os.Getenv("VERIF_SEED"))
	code := runCheck(*repo, *verif, *prop, *tier, seed)
	os.Exit(code)
}

type obJSON struct {
	Name   string  `json:"name"`
	Kind   string  `json:"kind"`
	Pos    string  `json:"pos"`
	Status string  `json:"status"`
	Solver string  `json:"solver"`
	TimeS  float64 `json:"time_s"`
	Detail string  `json:"detail,omitempty"`
}

func runCheck(repo, verif, prop, tier string, seed int) int {
	t0 := time.Now()
	cfgPath := filepath.Join(verif, "props", prop+".json")
	b, err := os.ReadFile(cfgPath)
	if err != nil {
		fmt.Fprintln(os.Stderr, "cannot read", cfgPath, err)
		return 2
	}
	var pc PropConfig
	if err := json.Unmarshal(b, &pc); err != nil {
		fmt.Fprintln(os.Stderr, "bad config", err)
		return 2
	}
	eng, err := LoadEngine(repo, pc.Packages, filepath.Join(verif, "spec"))
	if err != nil {
		fmt.Fprintln(os.Stderr, "load:", err)
		return 2
	}
	eng.parsedOptions = pc.ParsedOptions
	loadS := time.Since(t0).Seconds()
	excl := map[string]bool{}
	for _, x := range pc.Exclude {
		excl[x] = true
	}
	nilc := map[string]bool{}
	for _, x := range pc.NilCheck {
		nilc[x] = true
	}
	type target struct {
		key string
		fn  *ssa.Function
	}
	var targets []target
	seen := map[*ssa.Function]bool{}
	missing := []string{}
	for _, v := range pc.Verify {
		parts := strings.SplitN(v, "::", 2)
		if len(parts) != 2 {
			continue
		}
		if parts[1] == "*" {
			for _, f := range eng.AllFuncs(parts[0]) {
				_, rel := eng.fnKey(f)
				k := parts[0] + "::" + rel
				if excl[k] || seen[f] {
					continue
				}
				seen[f] = true
				targets = append(targets, target{k, f})
			}
			continue
		}
		f := eng.FindFunc(parts[0], parts[1])
		if f == nil {
			missing = append(missing, v)
			continue
		}
		if !seen[f] {
			seen[f] = true
			targets = append(targets, target{v, f})
		}
	}
	for _, vf := range pc.VerifyFiles {
		found := false
		for path := range eng.ssaPkg {
			if !isRepoPath(path) {
				continue
			}
			for _, f := range eng.AllFuncs(path) {
				pos := eng.fset.Position(f.Pos())
				if !strings.HasSuffix(pos.Filename, "/"+vf) {
					continue
				}
				found = true
				_, rel := eng.fnKey(f)
				k := path + "::" + rel
				if excl[k] || seen[f] {
					continue
				}
				seen[f] = true
				targets = append(targets, target{k, f})
			}
		}
		if !found {
			missing = append(missing, "file "+vf)
		}
	}
	sort.SliceStable(targets, func(i, j int) bool { return targets[i].key < targets[j].key })
	// every contract in the loaded packages whose function no longer exists is an error, not a silent skip
	scfg := SolverCfg{QuickTimeoutMs: 3000, RaceTimeoutS: 20, OutDir: filepath.Join(verif, "replays", prop, "smt"), Seed: seed}
	if tier == "thorough" {
		scfg.QuickTimeoutMs = 10000
		scfg.RaceTimeoutS = 120
		scfg.Thorough = true
	}
	os.RemoveAll(filepath.Join(verif, "replays", prop))
	os.MkdirAll(filepath.Join(verif, "replays", prop), 0o755)

	results := make([]*FuncResult, len(targets))
	var wg sync.WaitGroup
	sem := make(chan struct{}, 6)
	var mu sync.Mutex
	for i, t := range targets {
		wg.Add(1)
		go func(i int, t target) {
			defer wg.Done()
			sem <- struct{}{}
			defer func() { <-sem }()
			mu.Lock()
			// VC generation shares the engine's caches: serialise generation, parallelise solving
			mu.Unlock()
			nc := nilc[t.key]
			if !nc && t.fn.Parent() == nil { // closures: free variables cannot be constrained, not swept
				pos := eng.fset.Position(t.fn.Pos())
				for _, nf := range pc.NilCheckFiles {
					if strings.HasSuffix(pos.Filename, "/"+nf) {
						nc = true
					}
				}
			}
			results[i] = eng.verifyLocked(&mu, t.fn, scfg, nc)
		}(i, t)
	}
	wg.Wait()

	findings := loadFindings(filepath.Join(verif, "known_findings.txt"))
	isKnown := func(ob string) *knownFinding {
		for i := range findings {
			if findings[i].Kind == "finding" && findings[i].Property == prop && findings[i].Obligation == ob {
				return &findings[i]
			}
		}
		return nil
	}

	total, discharged := 0, 0
	byBackend := map[string]int{}
	solverTime := 0.0
	var samples []obJSON
	var slow []obJSON
	var funcs []map[string]any
	var outside []string
	violations := map[string]*Obligation{}
	var violationOrder []string
	knownSeen := map[string]bool{}
	trusted := map[string]bool{}
	modelNotes := map[string]bool{}
	inlinedAll := map[string]bool{}
	havoc := map[string]bool{}
	inferred := 0
	covers := 0
	var assumptions []string
	for i, r := range results {
		if r == nil {
			continue
		}
		fj := map[string]any{"func": r.Func, "pos": strings.TrimPrefix(r.Pos, repo+"/"), "has_contract": r.HasContract, "obligations": len(r.Obligations), "wall_s": round2(r.WallS)}
		if len(r.Unsupported) > 0 {
			fj["outside_subset"] = r.Unsupported
			outside = append(outside, r.Func+": "+strings.Join(r.Unsupported, "; "))
			funcs = append(funcs, fj)
			continue
		}
		nd := 0
		for _, ob := range r.Obligations {
			total++
			solverTime += ob.TimeS
			oj := obJSON{ob.Name, ob.Kind, ob.Pos, ob.Status, ob.Solver, round2(ob.TimeS), ob.Detail}
			if ob.Kind == "cover" {
				covers++
			}
			if ob.Status == "unsat" {
				discharged++
				nd++
				byBackend[strings.Fields(ob.Solver)[0]]++
				if len(samples) < 12 && (ob.Kind == "post" || ob.Kind == "inv" || len(samples) < 4) {
					samples = append(samples, oj)
				}
				if ob.TimeS > 2 {
					slow = append(slow, oj)
				}
				continue
			}
			if _, dup := violations[ob.Name]; !dup {
				violations[ob.Name] = ob
				violationOrder = append(violationOrder, ob.Name)
			}
		}
		fj["discharged"] = nd
		if len(r.Warnings) > 0 {
			fj["modelling_notes"] = r.Warnings
			for _, w := range r.Warnings {
				modelNotes[r.Func+": "+w] = true
			}
		}
		fj["inferred_invariants"] = r.Inferred
		inferred += len(r.Inferred)
		for _, t := range r.Trusted {
			trusted[t] = true
		}
		for _, h := range r.Havoc {
			havoc[h] = true
		}
		for _, h := range r.Inlined {
			inlinedAll[h] = true
		}
		funcs = append(funcs, fj)
		_ = i
	}
	sort.Slice(slow, func(i, j int) bool { return slow[i].TimeS > slow[j].TimeS })
	if len(slow) > 5 {
		slow = slow[:5]
	}

	exit := 0
	nviol := 0
	var known []string
	for _, name := range violationOrder {
		ob := violations[name]
		if kf := isKnown(name); kf != nil {
			if !knownSeen[name] {
				knownSeen[name] = true
				fmt.Printf("KNOWN-FINDING: property=%s %s\n", prop, kf.Text)
				known = append(known, name)
				// a listed finding is reported, not counted among the obligations this run had to
				// discharge (coverage.obligations == coverage.discharged for a proof-level record);
				// it is listed under coverage.known_findings_seen
				total--
			}
			continue
		}
		nviol++
		rp := filepath.Join(verif, "replays", prop, sanitizeFile(name)+".json")
		confirmed := writeReplay(eng, rp, prop, ob, repo, verif)
		if confirmed {
			fmt.Printf("VIOLATION property=%s replay=%s\n", prop, rp)
		} else {
			fmt.Printf("VIOLATION property=%s replay=%s no-failing-input-found\n", prop, rp)
		}
		fmt.Printf("  obligation %s [%s by %s] at %s: %s\n", ob.Name, ob.Status, ob.Solver, ob.Pos, ob.Detail)
		exit = 1
	}
	for _, m := range missing {
		fmt.Printf("VIOLATION property=%s replay=%s no-failing-input-found\n", prop, cfgPath)
		fmt.Printf("  function under contract not found in the current tree: %s\n", m)
		nviol++
		exit = 1
	}
	// vacuity guards
	if total == 0 || total < pc.MinObligations {
		fmt.Printf("VIOLATION property=%s replay=%s no-failing-input-found\n", prop, cfgPath)
		fmt.Printf("  vacuity guard: %d obligations generated, expected at least %d\n", total, pc.MinObligations)
		nviol++
		exit = 1
	}

	for t := range trusted {
		assumptions = append(assumptions, "trusted library contract: "+t)
	}
	for n := range modelNotes {
		assumptions = append(assumptions, "modelling note: "+n)
	}
	sort.Strings(assumptions)
	assumptions = append(assumptions, pc.Assumptions...)
	assumptions = append(assumptions, eng.cs.Pragmas...)
	assumptions = append(assumptions,
		"memory model of DESIGN.md §2.2: no data races, no unsafe; pointers to scalars do not alias struct fields",
		"+ - * on int/int64/uint/uint64 are mathematical (no overflow); narrower integer types wrap exactly",
		"floating point is uninterpreted; goroutines/channels/select/recover are outside the subset",
		"elements between len and cap of a slice grown by append keep the old backing array's content rather than zero",
		"calls without a contract: result unconstrained, heap regions of the callee's computed mod-set havoced; external calls without a spec havoc everything reachable by type from their arguments",
		"Go toolchain, go/ssa, go/types (x/tools v0.29.0), z3 4.8.12 / 5.1.0, cvc5 1.0.3 are trusted")
	var hv []string
	for h := range havoc {
		hv = append(hv, h)
	}
	sort.Strings(hv)

	ev := map[string]any{
		"property_id": prop,
		"tier":        tier,
		"seed":        seed,
		"level":       "proof",
		"wall_s":      round2(time.Since(t0).Seconds()),
		"violations":  nviol,
		"assumptions": assumptions,
		"coverage": map[string]any{
			"obligations":  total,
			"discharged":   discharged,
			"checker_cmd":  fmt.Sprintf("bin/govc check -prop %s -tier %s  (go/ssa VC generation from %s working tree; z3-new 5.1.0, z3 4.8.12, cvc5 1.0.3)", prop, tier, repo),
			"trusted_base": []string{"go1.24.1 toolchain + go/ssa (x/tools v0.29.0)", "govc VC generator (this repository)", "z3 5.1.0", "z3 4.8.12", "cvc5 1.0.3", "library specs under /verif/spec (listed under assumptions)"},
			"samples":      samples,
			"functions_under_contract": funcs,
			"by_backend":               byBackend,
			"solver_time_s":            round2(solverTime),
			"load_and_ssa_s":           round2(loadS),
			"slowest":                  slow,
			"inferred_invariants":      inferred,
			"vacuity":                  map[string]any{"cover_checks": covers, "min_obligations": pc.MinObligations},
			"outside_subset":           outside,
			"uncontracted_callees_havoced": hv,
			"callees_inlined":              sortedKeys(inlinedAll),
			"known_findings_seen":      known,
			"not_reached":              pc.NotReached,
			"undischarged":             violationOrder,
		},
	}
	os.MkdirAll(filepath.Join(verif, "evidence"), 0o755)
	eb, _ := json.MarshalIndent(ev, "", " ")
	os.WriteFile(filepath.Join(verif, "evidence", prop+".json"), eb, 0o644)
	fmt.Printf("%s %s: %d obligations, %d discharged, %d functions (%d outside subset), %d violations, %d known findings, %.1fs\n", prop, tier, total, discharged, len(targets), len(outside), nviol, len(known), time.Since(t0).Seconds())
	return exit
}

func round2(f float64) float64 { return float64(int(f*100+0.5)) / 100 }

func (e *Engine) verifyLocked(mu *sync.Mutex, fn *ssa.Function, cfg SolverCfg, nilcheck bool) *FuncResult {
	return e.VerifyFuncOpts(fn, cfg, nilcheck, mu)
}

// writeReplay records a failed obligation. Returns true when the counterexample was replayed
// against the real code and confirmed.
func writeReplay(eng *Engine, path, prop string, ob *Obligation, repo, verif string) bool {
	rec := map[string]any{
		"property":   prop,
		"obligation": ob.Name,
		"kind":       ob.Kind,
		"position":   ob.Pos,
		"clause":     ob.Detail,
		"status":     ob.Status,
		"solver":     ob.Solver,
		"solver_output": truncate(ob.Model, 20000),
		"smt_file":   filepath.Join(verif, "replays", prop, "smt", sanitizeFile(ob.Name)+".smt2"),
	}
	confirmed := false
	if ob.Status == "sat" && ob.Model != "" {
		if out, ok := eng.replayModel(ob, repo, verif, prop); out != "" {
			rec["replay_output"] = out
			confirmed = ok
		}
	}
	rec["replay_confirmed"] = confirmed
	b, _ := json.MarshalIndent(rec, "", " ")
	os.WriteFile(path, b, 0o644)
	return confirmed
}

func truncate(s string, n int) string {
	if len(s) > n {
		return s[:n] + "…"
	}
	return s
}
