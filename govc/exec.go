package main

import (
	"fmt"
	"go/token"
	"go/types"
	"strings"

	"golang.org/x/tools/go/ssa"
)

const goDivDefs = `(define-fun go.div ((a Int) (b Int)) Int (ite (>= a 0) (ite (> b 0) (div a b) (- (div a (- b)))) (ite (> b 0) (- (div (- a) b)) (div (- a) (- b)))))
(define-fun go.rem ((a Int) (b Int)) Int (- a (* b (go.div a b))))
(declare-fun go.bitand (Int Int) Int)
(declare-fun go.bitor (Int Int) Int)
(declare-fun go.bitxor (Int Int) Int)
(declare-fun go.shl (Int Int) Int)
(declare-fun go.shr (Int Int) Int)
(declare-fun go.ix (Int Int) Int)
(assert (forall ((o Int) (i Int)) (! (= (go.ix o i) (+ o i)) :pattern ((go.ix o i)))))
`

func (s *Sess) wrap(t string, T types.Type) string {
	bits, signed := intBits(T)
	if bits == 0 {
		return t
	}
	if bits == 64 {
		return t // 64-bit + - * treated as mathematical (stated assumption)
	}
	m := pow2(bits)
	if !signed {
		return fmt.Sprintf("(mod %s %s)", t, m)
	}
	h := pow2(bits - 1)
	return fmt.Sprintf("(- (mod (+ %s %s) %s) %s)", t, h, m, h)
}

// wrapIfNeeded wraps but keeps the in-range case linear.
func (s *Sess) wrapArith(t string, T types.Type) string {
	bits, _ := intBits(T)
	if bits == 0 || bits == 64 {
		return t
	}
	lo, hi, _ := intRange(T)
	x := s.define("ar", "Int", t)
	return fmt.Sprintf("(ite (and (<= %s %s) (<= %s %s)) %s %s)", lo, x, x, hi, x, s.wrap(x, T))
}

func isUnsigned(T types.Type) bool {
	b, ok := T.Underlying().(*types.Basic)
	return ok && b.Info()&types.IsUnsigned != 0
}
func isInteger(T types.Type) bool {
	b, ok := T.Underlying().(*types.Basic)
	return ok && b.Info()&types.IsInteger != 0
}
func isString(T types.Type) bool {
	b, ok := T.Underlying().(*types.Basic)
	return ok && b.Info()&types.IsString != 0
}
func isFloat(T types.Type) bool {
	b, ok := T.Underlying().(*types.Basic)
	return ok && b.Info()&(types.IsFloat|types.IsComplex) != 0
}
func isBool(T types.Type) bool {
	b, ok := T.Underlying().(*types.Basic)
	return ok && b.Info()&types.IsBoolean != 0
}

func (s *Sess) fltOp(name string, nargs int, ret string) string {
	n := q("flt." + name)
	if !s.ufDecl[n] {
		s.ufDecl[n] = true
		args := strings.TrimSpace(strings.Repeat("Flt ", nargs))
		s.emitDecl(fmt.Sprintf("(declare-fun %s (%s) %s)", n, args, ret))
	}
	return n
}

func (s *Sess) uf(name string, argSorts []string, ret string) string {
	n := q(name)
	if !s.ufDecl[n] {
		s.ufDecl[n] = true
		s.emitDecl(fmt.Sprintf("(declare-fun %s (%s) %s)", n, strings.Join(argSorts, " "), ret))
		if name == "str.ofbytes" {
			// a string has as many bytes as the slice it was converted from
			s.global(func() {
				s.assume(fmt.Sprintf("(forall ((a (Array Int Int)) (o Int) (n Int)) (! (=> (>= n 0) (= (str.len (%s a o n)) n)) :pattern ((%s a o n))))", n, n))
			})
		}
	}
	return n
}

func (s *Sess) binop(op token.Token, x, y Val, T types.Type, in *ssa.BinOp, st *State) string {
	a, b := x.t, y.t
	XT := x.typ
	switch op {
	case token.EQL:
		return fmt.Sprintf("(= %s %s)", a, b)
	case token.NEQ:
		return fmt.Sprintf("(not (= %s %s))", a, b)
	}
	if isFloat(XT) {
		switch op {
		case token.LSS, token.LEQ, token.GTR, token.GEQ:
			return fmt.Sprintf("(%s %s %s)", s.fltOp(op.String(), 2, "Bool"), a, b)
		default:
			return fmt.Sprintf("(%s %s %s)", s.fltOp(op.String(), 2, "Flt"), a, b)
		}
	}
	if isString(XT) {
		switch op {
		case token.ADD:
			return fmt.Sprintf("(str.++ %s %s)", a, b)
		case token.LSS:
			return fmt.Sprintf("(str.< %s %s)", a, b)
		case token.LEQ:
			return fmt.Sprintf("(str.<= %s %s)", a, b)
		case token.GTR:
			return fmt.Sprintf("(str.< %s %s)", b, a)
		case token.GEQ:
			return fmt.Sprintf("(str.<= %s %s)", b, a)
		}
	}
	if isBool(XT) {
		switch op {
		case token.AND, token.LAND:
			return and(a, b)
		case token.OR, token.LOR:
			return or(a, b)
		case token.XOR:
			return fmt.Sprintf("(xor %s %s)", a, b)
		}
	}
	switch op {
	case token.LSS:
		return fmt.Sprintf("(< %s %s)", a, b)
	case token.LEQ:
		return fmt.Sprintf("(<= %s %s)", a, b)
	case token.GTR:
		return fmt.Sprintf("(> %s %s)", a, b)
	case token.GEQ:
		return fmt.Sprintf("(>= %s %s)", a, b)
	case token.ADD, token.SUB, token.MUL:
		o := map[token.Token]string{token.ADD: "+", token.SUB: "-", token.MUL: "*"}[op]
		raw := fmt.Sprintf("(%s %s %s)", o, a, b)
		if s.arithChecked && in != nil {
			if lo, hi, ok := intRange(T); ok {
				s.oblige(st, "arith", fmt.Sprintf("arith@%d", s.ord[in]), fmt.Sprintf("(and (<= %s %s) (<= %s %s))", lo, raw, raw, hi), in.Pos(), "no overflow in "+in.String())
			}
		}
		return s.wrapArith(raw, T)
	case token.QUO:
		return fmt.Sprintf("(go.div %s %s)", a, b)
	case token.REM:
		return fmt.Sprintf("(go.rem %s %s)", a, b)
	case token.SHL:
		if c, ok := constInt(y); ok && c >= 0 && c < 64 {
			return s.wrapArith(fmt.Sprintf("(* %s %s)", a, pow2(int(c))), T)
		}
		return s.wrap(fmt.Sprintf("(go.shl %s %s)", a, b), T)
	case token.SHR:
		if c, ok := constInt(y); ok && c >= 0 && c < 64 {
			return fmt.Sprintf("(div %s %s)", a, pow2(int(c)))
		}
		return fmt.Sprintf("(go.shr %s %s)", a, b)
	case token.AND:
		if c, ok := constInt(y); ok && c >= 0 && isPow2Minus1(c) {
			return fmt.Sprintf("(mod %s %d)", a, c+1)
		}
		r := s.define("band", "Int", fmt.Sprintf("(go.bitand %s %s)", a, b))
		s.assume(fmt.Sprintf("(=> (and (>= %s 0) (>= %s 0)) (and (>= %s 0) (<= %s %s) (<= %s %s)))", a, b, r, r, a, r, b))
		return r
	case token.OR:
		r := s.define("bor", "Int", fmt.Sprintf("(go.bitor %s %s)", a, b))
		s.assume(fmt.Sprintf("(=> (and (>= %s 0) (>= %s 0)) (and (>= %s %s) (>= %s %s) (<= %s (+ %s %s))))", a, b, r, a, r, b, r, a, b))
		return r
	case token.XOR:
		return fmt.Sprintf("(go.bitxor %s %s)", a, b)
	case token.AND_NOT:
		return fmt.Sprintf("(go.bitand %s (- (- %s) 1))", a, b)
	}
	s.unsupp("binop %s", op)
	return s.fresh("binop", s.tc.sortOf(T))
}

func isPow2Minus1(c int64) bool { return c > 0 && (c+1)&c == 0 }

func constInt(v Val) (int64, bool) {
	t := v.t
	neg := false
	if strings.HasPrefix(t, "(- ") && strings.HasSuffix(t, ")") {
		t = t[3 : len(t)-1]
		neg = true
	}
	var n int64
	if len(t) == 0 || len(t) > 18 {
		return 0, false
	}
	for _, c := range t {
		if c < '0' || c > '9' {
			return 0, false
		}
		n = n*10 + int64(c-'0')
	}
	if neg {
		n = -n
	}
	return n, true
}

func derefType(T types.Type) types.Type {
	if p, ok := T.Underlying().(*types.Pointer); ok {
		return p.Elem()
	}
	return nil
}

func (s *Sess) exec(in ssa.Instruction, st *State) {
	defer func() {
		if r := recover(); r != nil {
			if e, ok := r.(evalErr); ok {
				s.unsupp("%s: %s", s.posOf(in.Pos()), string(e))
				if v, ok := in.(ssa.Value); ok {
					if _, done := s.env[v]; !done {
						s.havocVal(v, st)
					}
				}
				return
			}
			panic(r)
		}
	}()
	switch x := in.(type) {
	case *ssa.DebugRef:
		return
	case *ssa.Alloc:
		T := derefType(x.Type())
		r := s.setVal(x, st.top, st)
		st.top = s.define("top", "Int", fmt.Sprintf("(+ %s 1)", st.top))
		s.initObj(st, T, r.t)
	case *ssa.Phi:
		if li := s.loops[x.Block()]; li != nil {
			return // handled by enterLoop
		}
		b := x.Block()
		var terms, conds []string
		for i, p := range b.Preds {
			if s.out[p] == nil || s.edgeCond(p, b) == "false" {
				continue
			}
			v := s.val(x.Edges[i])
			if v.place != nil {
				s.unsupp("phi of interior pointer %s", x.Name())
				s.havocVal(x, st)
				return
			}
			terms = append(terms, v.t)
			conds = append(conds, s.edgeCond(p, b))
		}
		if len(terms) == 0 {
			s.havocVal(x, st)
			return
		}
		r := terms[len(terms)-1]
		for i := len(terms) - 2; i >= 0; i-- {
			if terms[i] != r {
				r = fmt.Sprintf("(ite %s %s %s)", conds[i], terms[i], r)
			}
		}
		s.setVal(x, r, st)
	case *ssa.BinOp:
		a, b := s.val(x.X), s.val(x.Y)
		if (x.Op == token.QUO || x.Op == token.REM) && isInteger(x.X.Type()) {
			s.oblige(st, "div", fmt.Sprintf("div@%d", s.ord[in]), fmt.Sprintf("(distinct %s 0)", b.t), x.Pos(), "division by zero in "+x.String())
		}
		s.setVal(x, s.binop(x.Op, a, b, x.Type(), x, st), st)
	case *ssa.UnOp:
		a := s.val(x.X)
		switch x.Op {
		case token.MUL:
			T := x.Type()
			if a.place == nil && s.nilcheck {
				s.oblige(st, "nil", fmt.Sprintf("nil@%d", s.ord[in]), fmt.Sprintf("(distinct %s 0)", a.t), x.Pos(), "nil dereference "+x.String())
			}
			v := s.setVal(x, s.load(st, a, T), st)
			s.assumeAt(st, s.wf(v.t, T, st.top))
			// protobuf-go validity: a repeated message field of a generated message has no nil
			// elements (Marshal and reflection reject them); modelling assumption, listed
			if fa, ok := x.X.(*ssa.FieldAddr); ok && s.nilcheck && s.eng.parsedOptions && isGeneratedMsgPtr(T) && isOneofWrapperPtr(fa.X.Type()) {
				// a set oneof arm of a parsed message holds a message (protodesc and Unmarshal never
				// leave a wrapper with a nil message); modelling assumption, listed
				s.trustedUsed["set oneof arms of generated protobuf messages hold non-nil messages (descriptor options are normalised by protodesc)"] = true
				s.assumeAt(st, fmt.Sprintf("(distinct %s 0)", v.t))
			}
			if fa, ok := x.X.(*ssa.FieldAddr); ok && s.nilcheck {
				if sl, ok := T.Underlying().(*types.Slice); ok && isGeneratedMsgPtr(sl.Elem()) && isGeneratedMsgPtr(fa.X.Type()) {
					s.trustedUsed["repeated message fields of generated protobuf messages have no nil elements (protobuf-go validity)"] = true
					H := s.region(st, elemRegion(sl.Elem()), s.elemSort(sl.Elem()))
					s.assumeAt(st, fmt.Sprintf("(forall ((i Int)) (! (=> (and (<= 0 i) (< i (s.len %s))) (distinct (select (select %s (s.base %s)) (go.ix (s.off %s) i)) 0)) :pattern ((select (select %s (s.base %s)) (go.ix (s.off %s) i)))))", v.t, H, v.t, v.t, H, v.t, v.t))
				}
			}
		case token.NOT:
			s.setVal(x, not(a.t), st)
		case token.SUB:
			if isFloat(x.Type()) {
				s.setVal(x, fmt.Sprintf("(%s %s)", s.fltOp("neg", 1, "Flt"), a.t), st)
			} else {
				s.setVal(x, s.wrapArith(fmt.Sprintf("(- %s)", a.t), x.Type()), st)
			}
		case token.XOR:
			if isUnsigned(x.Type()) {
				bits, _ := intBits(x.Type())
				s.setVal(x, fmt.Sprintf("(- %s 1 %s)", pow2(bits), a.t), st)
			} else {
				s.setVal(x, fmt.Sprintf("(- (- %s) 1)", a.t), st)
			}
		default:
			s.unsupp("unop %s", x.Op)
			s.havocVal(x, st)
		}
	case *ssa.Store:
		addr := s.val(x.Addr)
		T := derefType(x.Addr.Type())
		v := s.val(x.Val)
		if v.place != nil {
			pt := v.place.typ
			switch pt.Underlying().(type) {
			case *types.Basic:
				// address of a scalar field/element escapes into memory: modelled as a fresh cell
				// holding a snapshot of the value (aliasing writes through it are not modelled;
				// recorded as a per-function assumption)
				r := s.define("snap", "Int", st.top)
				st.top = s.define("top", "Int", fmt.Sprintf("(+ %s 1)", st.top))
				key := cellRegion(pt)
				s.setRegion(st, key, s.cellSort(pt), fmt.Sprintf("(store %s %s %s)", s.region(st, key, s.cellSort(pt)), r, s.readPlace(st, v.place)))
				s.warnings = append(s.warnings, fmt.Sprintf("%s: address of a scalar field escapes; modelled as a snapshot cell", s.posOf(x.Pos())))
				v = Val{t: r, typ: x.Val.Type()}
			default:
				s.unsupp("%s: interior pointer stored to memory", s.posOf(x.Pos()))
				return
			}
		}
		if addr.place == nil && s.nilcheck {
			s.oblige(st, "nil", fmt.Sprintf("nil@%d", s.ord[in]), fmt.Sprintf("(distinct %s 0)", addr.t), x.Pos(), "nil dereference in store "+x.String())
		}
		s.store(st, addr, T, v.t)
	case *ssa.FieldAddr:
		base := s.val(x.X)
		T := derefType(x.X.Type())
		stt, _ := isStruct(T)
		f := stt.Field(x.Field)
		if base.place != nil {
			p := *base.place
			p.path = append(append([]pstep{}, p.path...), pstep{field: x.Field, styp: T})
			p.typ = f.Type()
			s.env[x] = Val{place: &p, typ: x.Type()}
			return
		}
		if s.nilcheck {
			s.oblige(st, "nil", fmt.Sprintf("nil@%d", s.ord[in]), fmt.Sprintf("(distinct %s 0)", base.t), x.Pos(), "nil dereference "+x.String())
		}
		switch f.Type().Underlying().(type) {
		case *types.Struct, *types.Array:
			s.env[x] = Val{t: s.subRef(T, x.Field, base.t), typ: x.Type()}
		default:
			s.env[x] = Val{place: &Place{region: fieldRegion(T, f, x.Field), rsort: s.fieldSort(f), base: base.t, typ: f.Type()}, typ: x.Type()}
		}
	case *ssa.Field:
		a := s.val(x.X)
		si := s.tc.structSort(x.X.Type())
		s.setVal(x, fmt.Sprintf("(%s %s)", s.tc.accessor(si, x.Field), a.t), st)
	case *ssa.IndexAddr:
		a := s.val(x.X)
		i := s.val(x.Index)
		name := fmt.Sprintf("idx@%d", s.ord[in])
		switch u := x.X.Type().Underlying().(type) {
		case *types.Slice:
			s.oblige(st, "idx", name, fmt.Sprintf("(and (<= 0 %s) (< %s (s.len %s)))", i.t, i.t, a.t), x.Pos(), "index in range: "+x.String())
			s.env[x] = Val{place: &Place{region: elemRegion(u.Elem()), rsort: s.elemSort(u.Elem()), base: fmt.Sprintf("(s.base %s)", a.t), idx: fmt.Sprintf("(go.ix (s.off %s) %s)", a.t, i.t), typ: u.Elem()}, typ: x.Type()}
		case *types.Pointer:
			arr := u.Elem().Underlying().(*types.Array)
			s.oblige(st, "idx", name, fmt.Sprintf("(and (<= 0 %s) (< %s %d))", i.t, i.t, arr.Len()), x.Pos(), "index in range: "+x.String())
			if a.place != nil {
				p := *a.place
				p.path = append(append([]pstep{}, p.path...), pstep{field: -1, styp: arr, index: i.t})
				p.typ = arr.Elem()
				s.env[x] = Val{place: &p, typ: x.Type()}
			} else {
				s.env[x] = Val{place: &Place{region: elemRegion(arr.Elem()), rsort: s.elemSort(arr.Elem()), base: a.t, idx: fmt.Sprintf("(go.ix 0 %s)", i.t), typ: arr.Elem()}, typ: x.Type()}
			}
		default:
			s.unsupp("indexaddr on %s", x.X.Type())
			s.env[x] = Val{t: s.fresh("ia", "Int"), typ: x.Type()}
		}
	case *ssa.Index:
		a := s.val(x.X)
		i := s.val(x.Index)
		name := fmt.Sprintf("idx@%d", s.ord[in])
		switch u := x.X.Type().Underlying().(type) {
		case *types.Array:
			s.oblige(st, "idx", name, fmt.Sprintf("(and (<= 0 %s) (< %s %d))", i.t, i.t, u.Len()), x.Pos(), "index in range: "+x.String())
			s.setVal(x, fmt.Sprintf("(select %s %s)", a.t, i.t), st)
		default: // string
			s.oblige(st, "idx", name, fmt.Sprintf("(and (<= 0 %s) (< %s (str.len %s)))", i.t, i.t, a.t), x.Pos(), "index in range: "+x.String())
			v := s.setVal(x, fmt.Sprintf("(str.to_code (str.at %s %s))", a.t, i.t), st)
			s.assumeAt(st, fmt.Sprintf("(and (<= 0 %s) (<= %s 255))", v.t, v.t))
		}
	case *ssa.Lookup:
		a := s.val(x.X)
		k := s.val(x.Index)
		if isString(x.X.Type()) {
			s.oblige(st, "idx", fmt.Sprintf("idx@%d", s.ord[in]), fmt.Sprintf("(and (<= 0 %s) (< %s (str.len %s)))", k.t, k.t, a.t), x.Pos(), "index in range: "+x.String())
			v := s.setVal(x, fmt.Sprintf("(str.to_code (str.at %s %s))", a.t, k.t), st)
			s.assumeAt(st, fmt.Sprintf("(and (<= 0 %s) (<= %s 255))", v.t, v.t))
			return
		}
		m := x.X.Type().Underlying().(*types.Map)
		has, val := s.mapGet(st, m, a.t, k.t)
		if x.CommaOk {
			vv := s.define("mv", s.tc.sortOf(m.Elem()), val)
			s.assumeAt(st, s.wf(vv, m.Elem(), st.top))
			s.env[x] = Val{parts: []Val{{t: vv, typ: m.Elem()}, {t: has, typ: types.Typ[types.Bool]}}, typ: x.Type()}
		} else {
			v := s.setVal(x, val, st)
			s.assumeAt(st, s.wf(v.t, m.Elem(), st.top))
		}
	case *ssa.MapUpdate:
		a := s.val(x.Map)
		m := x.Map.Type().Underlying().(*types.Map)
		s.oblige(st, "mapw", fmt.Sprintf("mapw@%d", s.ord[in]), fmt.Sprintf("(distinct %s 0)", a.t), x.Pos(), "write to nil map: "+x.String())
		s.mapSet(st, m, a.t, s.val(x.Key).t, s.val(x.Value).t)
	case *ssa.MakeMap:
		r := s.setVal(x, st.top, st)
		st.top = s.define("top", "Int", fmt.Sprintf("(+ %s 1)", st.top))
		m := x.Type().Underlying().(*types.Map)
		hk := mapHasRegion(m)
		hs := s.mapHasSort(m)
		s.setRegion(st, hk, hs, fmt.Sprintf("(store %s %s ((as const (Array %s Bool)) false))", s.region(st, hk, hs), r.t, s.tc.sortOf(m.Key())))
	case *ssa.MakeSlice:
		T := x.Type().Underlying().(*types.Slice)
		l, c := s.val(x.Len), s.val(x.Cap)
		s.oblige(st, "slice", fmt.Sprintf("makeslice@%d", s.ordOf(in, "mk")), fmt.Sprintf("(and (<= 0 %s) (<= %s %s))", l.t, l.t, c.t), x.Pos(), "make: 0 <= len <= cap")
		base := st.top
		st.top = s.define("top", "Int", fmt.Sprintf("(+ %s 1)", st.top))
		key := elemRegion(T.Elem())
		s.setRegion(st, key, s.elemSort(T.Elem()), fmt.Sprintf("(store %s %s %s)", s.region(st, key, s.elemSort(T.Elem())), base, s.tc.zero(types.NewArray(T.Elem(), 0))))
		s.setVal(x, fmt.Sprintf("(mk-slice %s 0 %s %s)", base, l.t, c.t), st)
	case *ssa.Slice:
		s.execSlice(x, st)
	case *ssa.MakeInterface:
		v := s.val(x.X)
		s.setVal(x, s.makeIface(v, x.X.Type()), st)
	case *ssa.ChangeInterface:
		s.setVal(x, s.val(x.X).t, st)
	case *ssa.ChangeType:
		v := s.val(x.X)
		if v.place != nil || v.clo != nil {
			v.typ = x.Type()
			s.env[x] = v
			return
		}
		nv := s.setVal(x, v.t, st)
		nv.clo = v.clo
		s.env[x] = nv
	case *ssa.Convert:
		s.execConvert(x, st)
	case *ssa.TypeAssert:
		s.execTypeAssert(x, st)
	case *ssa.Extract:
		t := s.val(x.Tuple)
		if x.Index < len(t.parts) {
			p := t.parts[x.Index]
			if p.place != nil {
				s.env[x] = p
				return
			}
			nv := s.setVal(x, p.t, st)
			nv.clo = p.clo
			s.env[x] = nv
		} else {
			s.unsupp("extract from non-tuple %s", x.Tuple.Name())
			s.havocVal(x, st)
		}
	case *ssa.MakeClosure:
		// the closure body assumes the type invariant of what it captures: it must hold here
		if cf, ok := x.Fn.(*ssa.Function); ok {
			for i, b := range x.Bindings {
				if i >= len(cf.FreeVars) {
					break
				}
				pt, ok := cf.FreeVars[i].Type().(*types.Pointer)
				if !ok {
					continue
				}
				invs := s.eng.typeInvsFor(pt.Elem())
				if len(invs) == 0 {
					continue
				}
				capName := "$cap." + cf.FreeVars[i].Name()
				cur := Val{t: s.load(st, s.val(b), pt.Elem()), typ: pt.Elem()}
				for k, ti := range invs {
					if ti.C.E == nil {
						continue
					}
					ce := s.funcEnv(st, s.entry, nil)
					ce.vars[capName] = cur
					f, err := ce.evalBool(renameIdent(ti.C.E, "$recv", capName))
					if err != nil {
						s.detached("closure capture %s: type invariant %q: %v", cf.FreeVars[i].Name(), ti.C.Src, err)
						continue
					}
					s.oblige(st, "pre", fmt.Sprintf("closure.%s.typeinv%d@%d", cf.FreeVars[i].Name(), k, s.ord[in]), f, x.Pos(), "type invariant of captured "+cf.FreeVars[i].Name()+": "+ti.C.Src)
				}
			}
		}
		r := s.setVal(x, st.top, st)
		st.top = s.define("top", "Int", fmt.Sprintf("(+ %s 1)", st.top))
		r.clo = x
		s.env[x] = r
	case *ssa.Call:
		res := s.call(x, st)
		if x.Type() != nil {
			if tup, ok := x.Type().(*types.Tuple); ok {
				if tup.Len() > 0 {
					s.env[x] = Val{parts: res, typ: x.Type()}
				}
			} else if len(res) == 1 {
				nv := s.setVal(x, res[0].t, st)
				_ = nv
			}
		}
	case *ssa.Defer:
		s.defers = append(s.defers, x)
		if s.loopOf(x.Block()) != nil {
			s.unsupp("defer inside a loop")
		}
	case *ssa.RunDefers:
		for i := len(s.defers) - 1; i >= 0; i-- {
			d := s.defers[i]
			if !d.Block().Dominates(x.Block()) {
				if !blockReaches(d.Block(), x.Block()) {
					continue // this return is taken before the defer statement was reached
				}
				s.unsupp("conditional defer")
				continue
			}
			s.call(d, st)
		}
	case *ssa.Go:
		s.unsupp("go statement")
	case *ssa.Send, *ssa.Select, *ssa.MakeChan:
		s.unsupp("channel operation")
		if v, ok := in.(ssa.Value); ok {
			s.havocVal(v, st)
		}
	case *ssa.Range:
		s.execRange(x, st)
	case *ssa.Next:
		s.execNext(x, st)
	case *ssa.If, *ssa.Jump:
		return
	case *ssa.Return:
		s.checkAssertsAtReturn(x, st)
		var vals []Val
		for _, r := range x.Results {
			v := s.val(r)
			if v.place != nil {
				s.unsupp("interior pointer returned")
				v = Val{t: s.fresh("ret", "Int"), typ: r.Type()}
			}
			vals = append(vals, v)
		}
		s.rets = append(s.rets, retInfo{st: st.clone(), vals: vals, pos: x.Pos(), blk: x.Block().Index})
	case *ssa.Panic:
		allowed := "false"
		if s.ct != nil {
			var cs []string
			for _, c := range s.ct.PanicsWhen {
				ce := s.funcEnv(st, s.entry, nil)
				f, err := ce.evalBool(c.E)
				if err != nil {
					s.unsupp("panics when %q: %v", c.Src, err)
					continue
				}
				cs = append(cs, f)
			}
			allowed = or(cs...)
		}
		if s.ct == nil || s.ct.Opts["panics"] != "allowed" {
			s.oblige(st, "panic", fmt.Sprintf("panic@%d", s.ord[in]), allowed, x.Pos(), "explicit panic is unreachable: "+x.String())
		}
		st.reach = "false"
	case *ssa.SliceToArrayPointer:
		v := s.val(x.X)
		// only offset-0 slices map onto the backing object directly
		s.unsupp("slice to array pointer")
		_ = v
		s.havocVal(x, st)
	case *ssa.MultiConvert:
		s.unsupp("multiconvert")
		s.havocVal(x, st)
	default:
		s.unsupp("instruction %T", in)
		if v, ok := in.(ssa.Value); ok {
			s.havocVal(v, st)
		}
	}
}

func (s *Sess) ordOf(in ssa.Instruction, kind string) int {
	n := 0
	for _, b := range s.fn.Blocks {
		for _, i := range b.Instrs {
			if i == in {
				return n
			}
			switch i.(type) {
			case *ssa.MakeSlice:
				if kind == "mk" {
					n++
				}
			}
		}
	}
	return n
}

func (s *Sess) loopOf(b *ssa.BasicBlock) *loopInfo {
	var best *loopInfo
	for _, li := range s.loopList {
		if li.blocks[b] && (best == nil || len(li.blocks) < len(best.blocks)) {
			best = li
		}
	}
	return best
}

// initObj zero-initialises a freshly allocated object of type T at ref.
func (s *Sess) initObj(st *State, T types.Type, ref string) {
	switch u := T.Underlying().(type) {
	case *types.Struct:
		for i := 0; i < u.NumFields(); i++ {
			f := u.Field(i)
			switch fu := f.Type().Underlying().(type) {
			case *types.Struct:
				s.initObj(st, f.Type(), s.subRef(T, i, ref))
			case *types.Array:
				key := elemRegion(fu.Elem())
				s.setRegion(st, key, s.elemSort(fu.Elem()), fmt.Sprintf("(store %s %s %s)", s.region(st, key, s.elemSort(fu.Elem())), s.subRef(T, i, ref), s.tc.zero(f.Type())))
			default:
				key := fieldRegion(T, f, i)
				s.setRegion(st, key, s.fieldSort(f), fmt.Sprintf("(store %s %s %s)", s.region(st, key, s.fieldSort(f)), ref, s.tc.zero(f.Type())))
			}
		}
	case *types.Array:
		key := elemRegion(u.Elem())
		s.setRegion(st, key, s.elemSort(u.Elem()), fmt.Sprintf("(store %s %s %s)", s.region(st, key, s.elemSort(u.Elem())), ref, s.tc.zero(T)))
	default:
		key := cellRegion(T)
		s.setRegion(st, key, s.cellSort(T), fmt.Sprintf("(store %s %s %s)", s.region(st, key, s.cellSort(T)), ref, s.tc.zero(T)))
	}
}

func (s *Sess) mapSort(m *types.Map) string {
	return fmt.Sprintf("(Array Int (Array %s %s))", s.tc.sortOf(m.Key()), s.tc.sortOf(m.Elem()))
}
func (s *Sess) mapHasSort(m *types.Map) string {
	return fmt.Sprintf("(Array Int (Array %s Bool))", s.tc.sortOf(m.Key()))
}

func (s *Sess) mapGet(st *State, m *types.Map, ref, key string) (has, val string) {
	H := s.region(st, mapHasRegion(m), s.mapHasSort(m))
	M := s.region(st, mapRegion(m), s.mapSort(m))
	has = fmt.Sprintf("(and (distinct %s 0) (select (select %s %s) %s))", ref, H, ref, key)
	val = fmt.Sprintf("(ite %s (select (select %s %s) %s) %s)", has, M, ref, key, s.tc.zero(m.Elem()))
	return
}

func (s *Sess) mapSet(st *State, m *types.Map, ref, key, val string) {
	H := s.region(st, mapHasRegion(m), s.mapHasSort(m))
	M := s.region(st, mapRegion(m), s.mapSort(m))
	s.setRegion(st, mapHasRegion(m), s.mapHasSort(m), fmt.Sprintf("(store %s %s (store (select %s %s) %s true))", H, ref, H, ref, key))
	s.setRegion(st, mapRegion(m), s.mapSort(m), fmt.Sprintf("(store %s %s (store (select %s %s) %s %s))", M, ref, M, ref, key, val))
}

func (s *Sess) boxFns(T types.Type) (box, unbox string) {
	k := typeKey(T)
	srt := s.tc.sortOf(T)
	box = s.uf("box:"+k, []string{srt}, "Int")
	unbox = s.uf("unbox:"+k, []string{"Int"}, srt)
	return
}

func isRefLike(T types.Type) bool {
	switch T.Underlying().(type) {
	case *types.Pointer, *types.Map, *types.Chan, *types.Signature:
		return true
	}
	return false
}

func (s *Sess) makeIface(v Val, T types.Type) string {
	if _, ok := T.Underlying().(*types.Interface); ok {
		return v.t
	}
	if v.place != nil {
		s.unsupp("interior pointer converted to interface")
		return s.fresh("iface", "Iface")
	}
	tag := s.tc.tagOf(T)
	if isRefLike(T) {
		return fmt.Sprintf("(mk-iface %d %s)", tag, v.t)
	}
	box, unbox := s.boxFns(T)
	bt := fmt.Sprintf("(%s %s)", box, v.t)
	if !s.subDone["box:"+bt] {
		s.subDone["box:"+bt] = true
		fact := fmt.Sprintf("(= (%s %s) %s)", unbox, bt, v.t)
		s.global(func() { s.assume(fact) })
	}
	return fmt.Sprintf("(mk-iface %d %s)", tag, bt)
}

func (s *Sess) makeIfaceQuiet(v Val, T types.Type) string {
	if isRefLike(T) {
		return fmt.Sprintf("(mk-iface %d %s)", s.tc.tagOf(T), v.t)
	}
	return s.makeIface(v, T)
}

func (s *Sess) unboxIface(iv string, T types.Type) string {
	if isRefLike(T) {
		return fmt.Sprintf("(i.val %s)", iv)
	}
	_, unbox := s.boxFns(T)
	return fmt.Sprintf("(%s (i.val %s))", unbox, iv)
}

// implTerm: does the dynamic type with this tag implement interface I?
func (s *Sess) implTerm(tagTerm string, I types.Type) string {
	f := s.uf("impl:"+typeKey(I), []string{"Int"}, "Bool")
	return fmt.Sprintf("(%s %s)", f, tagTerm)
}

func (s *Sess) execTypeAssert(x *ssa.TypeAssert, st *State) {
	v := s.val(x.X)
	T := x.AssertedType
	var ok, val string
	if _, isI := T.Underlying().(*types.Interface); isI {
		iface := T.Underlying().(*types.Interface)
		if iface.NumMethods() == 0 {
			ok = fmt.Sprintf("(distinct (i.tag %s) 0)", v.t)
		} else {
			ok = and(fmt.Sprintf("(distinct (i.tag %s) 0)", v.t), s.implTerm(fmt.Sprintf("(i.tag %s)", v.t), T))
			s.implFacts(T)
		}
		val = v.t
	} else {
		ok = fmt.Sprintf("(= (i.tag %s) %d)", v.t, s.tc.tagOf(T))
		val = s.unboxIface(v.t, T)
	}
	if x.CommaOk {
		okc := s.define("ok", "Bool", ok)
		vv := s.define("ta", s.tc.sortOf(T), fmt.Sprintf("(ite %s %s %s)", okc, val, s.tc.zero(T)))
		s.assumeAt(st, s.wf(vv, T, st.top))
		s.env[x] = Val{parts: []Val{{t: vv, typ: T}, {t: okc, typ: types.Typ[types.Bool]}}, typ: x.Type()}
		return
	}
	// a documented panic condition (`panics when`) that can be evaluated here excuses the assertion
	if s.ct != nil && s.inlineDepth == 0 {
		for _, c := range s.ct.PanicsWhen {
			if c.E == nil {
				continue
			}
			ce := s.funcEnv(st, s.entry, nil)
			ce.lookup = func(n string) (Val, bool) { return s.resolveLocalAt(x, n, st) }
			if f, err := ce.evalBool(c.E); err == nil {
				ok = fmt.Sprintf("(or %s %s)", ok, f)
			}
		}
	}
	s.oblige(st, "assert", fmt.Sprintf("assert@%d", s.ord[x]), ok, x.Pos(), "type assertion cannot fail: "+x.String())
	nv := s.setVal(x, val, st)
	s.assumeAt(st, s.wf(nv.t, T, st.top))
}

// implFacts asserts impl:I(tag) for the tags of in-repo concrete types known so far.
func (s *Sess) implFacts(I types.Type) {
	iface := I.Underlying().(*types.Interface)
	for _, k := range s.tc.tagList {
		T := s.eng.typeByKey[k]
		if T == nil {
			continue
		}
		key := "implfact:" + typeKey(I) + ":" + k
		if s.subDone[key] {
			continue
		}
		s.subDone[key] = true
		f := s.implTerm(fmt.Sprintf("%d", s.tc.tags[k]), I)
		if types.Implements(T, iface) {
			s.global(func() { s.assume(f) })
		} else {
			s.global(func() { s.assume(not(f)) })
		}
	}
}

func (s *Sess) execSlice(x *ssa.Slice, st *State) {
	a := s.val(x.X)
	lo, hi, mx := "0", "", ""
	if x.Low != nil {
		lo = s.val(x.Low).t
	}
	if x.High != nil {
		hi = s.val(x.High).t
	}
	if x.Max != nil {
		mx = s.val(x.Max).t
	}
	name := fmt.Sprintf("slice@%d", s.ord[x])
	switch u := x.X.Type().Underlying().(type) {
	case *types.Slice:
		if hi == "" {
			hi = fmt.Sprintf("(s.len %s)", a.t)
		}
		capT := fmt.Sprintf("(s.cap %s)", a.t)
		bound := capT
		if mx != "" {
			bound = mx
		}
		f := fmt.Sprintf("(and (<= 0 %s) (<= %s %s) (<= %s %s))", lo, lo, hi, hi, bound)
		if mx != "" {
			f = and(f, fmt.Sprintf("(<= %s %s)", mx, capT))
		}
		s.oblige(st, "slice", name, f, x.Pos(), "slice bounds: "+x.String())
		nv := s.setVal(x, fmt.Sprintf("(mk-slice (s.base %s) (+ (s.off %s) %s) (- %s %s) (- %s %s))", a.t, a.t, lo, hi, lo, bound, lo), st)
		if lo != "0" {
			// bridge element indices of the re-sliced view to those of the original (E-matching aid:
			// the instance introduces the term (go.ix off (+ lo i)) that facts about the original need)
			s.assume(fmt.Sprintf("(forall ((i Int)) (! (= (go.ix (s.off %s) i) (go.ix (s.off %s) (+ %s i))) :pattern ((go.ix (s.off %s) i))))", nv.t, a.t, lo, nv.t))
		}
	case *types.Basic: // string
		if hi == "" {
			hi = fmt.Sprintf("(str.len %s)", a.t)
		}
		s.oblige(st, "slice", name, fmt.Sprintf("(and (<= 0 %s) (<= %s %s) (<= %s (str.len %s)))", lo, lo, hi, hi, a.t), x.Pos(), "slice bounds: "+x.String())
		s.setVal(x, fmt.Sprintf("(str.substr %s %s (- %s %s))", a.t, lo, hi, lo), st)
	case *types.Pointer:
		arr := u.Elem().Underlying().(*types.Array)
		n := fmt.Sprintf("%d", arr.Len())
		if hi == "" {
			hi = n
		}
		bound := n
		if mx != "" {
			bound = mx
		}
		s.oblige(st, "slice", name, fmt.Sprintf("(and (<= 0 %s) (<= %s %s) (<= %s %s) (<= %s %s))", lo, lo, hi, hi, bound, bound, n), x.Pos(), "slice bounds: "+x.String())
		if a.place != nil {
			s.unsupp("%s: slice of an array inside a value", s.posOf(x.Pos()))
			s.havocVal(x, st)
			return
		}
		s.setVal(x, fmt.Sprintf("(mk-slice %s %s (- %s %s) (- %s %s))", a.t, lo, hi, lo, bound, lo), st)
	}
}

func (s *Sess) execConvert(x *ssa.Convert, st *State) {
	v := s.val(x.X)
	from, to := x.X.Type(), x.Type()
	switch {
	case isInteger(from) && isInteger(to):
		bits, _ := intBits(to)
		lo, hi, _ := intRange(to)
		if s.convChecked {
			s.oblige(st, "conv", fmt.Sprintf("conv@%d", s.ord[x]), fmt.Sprintf("(and (<= %s %s) (<= %s %s))", lo, v.t, v.t, hi), x.Pos(), "conversion does not wrap: "+x.String())
		}
		if bits == 0 {
			s.setVal(x, v.t, st)
			return
		}
		// exact two's-complement wrap-around, also for 64 bits
		m := pow2(bits)
		var w string
		if isUnsigned(to) {
			w = fmt.Sprintf("(mod %s %s)", v.t, m)
		} else {
			h := pow2(bits - 1)
			w = fmt.Sprintf("(- (mod (+ %s %s) %s) %s)", v.t, h, m, h)
		}
		s.setVal(x, fmt.Sprintf("(ite (and (<= %s %s) (<= %s %s)) %s %s)", lo, v.t, v.t, hi, v.t, w), st)
	case isInteger(from) && isString(to):
		// string(rune): exact for ASCII, otherwise an opaque UTF-8 encoding of length 1..4
		f := s.uf("utf8enc", []string{"Int"}, "String")
		nv := s.setVal(x, fmt.Sprintf("(ite (and (<= 0 %s) (< %s 128)) (str.from_code %s) (%s %s))", v.t, v.t, v.t, f, v.t), st)
		s.assumeAt(st, fmt.Sprintf("(and (<= 1 (str.len %s)) (<= (str.len %s) 4))", nv.t, nv.t))
	case isString(from) && isString(to):
		s.setVal(x, v.t, st)
	case isString(from):
		// []byte(s) / []rune(s): fresh backing store described by an uninterpreted array of the string
		sl := to.Underlying().(*types.Slice)
		base := st.top
		st.top = s.define("top", "Int", fmt.Sprintf("(+ %s 1)", st.top))
		key := elemRegion(sl.Elem())
		isRunes := false
		if b, ok := sl.Elem().Underlying().(*types.Basic); ok && b.Kind() == types.Int32 {
			isRunes = true
		}
		var arr, ln string
		if isRunes {
			arr = fmt.Sprintf("(%s %s)", s.uf("runes.of", []string{"String"}, "(Array Int Int)"), v.t)
			ln = s.define("rl", "Int", fmt.Sprintf("(%s %s)", s.uf("runes.len", []string{"String"}, "Int"), v.t))
			s.assume(fmt.Sprintf("(and (<= 0 %s) (<= %s (str.len %s)))", ln, ln, v.t))
			s.assume(fmt.Sprintf("(forall ((i Int)) (! (and (<= 0 (select %s i)) (<= (select %s i) 1114111)) :pattern ((select %s i))))", arr, arr, arr))
		} else {
			arr = fmt.Sprintf("(%s %s)", s.uf("bytes.of", []string{"String"}, "(Array Int Int)"), v.t)
			ln = fmt.Sprintf("(str.len %s)", v.t)
			s.assume(fmt.Sprintf("(forall ((i Int)) (! (and (<= 0 (select %s i)) (<= (select %s i) 255)) :pattern ((select %s i))))", arr, arr, arr))
			// string([]byte(s)) == s
			ob := s.uf("str.ofbytes", []string{"(Array Int Int)", "Int", "Int"}, "String")
			s.assume(fmt.Sprintf("(= (%s %s 0 (str.len %s)) %s)", ob, arr, v.t, v.t))
		}
		s.setRegion(st, key, s.elemSort(sl.Elem()), fmt.Sprintf("(store %s %s %s)", s.region(st, key, s.elemSort(sl.Elem())), base, arr))
		s.setVal(x, fmt.Sprintf("(mk-slice %s 0 %s %s)", base, ln, ln), st)
	case isString(to):
		// string(bytes) / string(runes)
		sl := from.Underlying().(*types.Slice)
		key := elemRegion(sl.Elem())
		H := s.region(st, key, s.elemSort(sl.Elem()))
		name := "str.ofbytes"
		if b, ok := sl.Elem().Underlying().(*types.Basic); ok && b.Kind() == types.Int32 {
			name = "str.ofrunes"
		}
		f := s.uf(name, []string{"(Array Int Int)", "Int", "Int"}, "String")
		nv := s.setVal(x, fmt.Sprintf("(%s (select %s (s.base %s)) (s.off %s) (s.len %s))", f, H, v.t, v.t, v.t), st)
		if name == "str.ofbytes" {
			s.assumeAt(st, fmt.Sprintf("(= (str.len %s) (s.len %s))", nv.t, v.t))
		} else {
			s.assumeAt(st, fmt.Sprintf("(>= (str.len %s) (s.len %s))", nv.t, v.t))
		}
	case isFloat(from) && isFloat(to):
		s.setVal(x, v.t, st)
	case isInteger(from) && isFloat(to):
		s.setVal(x, fmt.Sprintf("(%s %s)", s.uf("flt.ofint", []string{"Int"}, "Flt"), v.t), st)
	case isFloat(from) && isInteger(to):
		nv := s.setVal(x, fmt.Sprintf("(%s %s)", s.uf("flt.toint:"+typeKey(to), []string{"Flt"}, "Int"), v.t), st)
		s.assumeAt(st, s.wf(nv.t, to, st.top))
	default:
		if s.tc.sortOf(from) == s.tc.sortOf(to) {
			s.setVal(x, v.t, st)
			return
		}
		s.unsupp("convert %s -> %s", from, to)
		s.havocVal(x, st)
	}
}

func (s *Sess) execRange(x *ssa.Range, st *State) {
	// hidden iterator position lives in a ghost cell
	r := s.setVal(x, st.top, st)
	st.top = s.define("top", "Int", fmt.Sprintf("(+ %s 1)", st.top))
	key := "C:$iterpos"
	s.setRegion(st, key, "(Array Int Int)", fmt.Sprintf("(store %s %s 0)", s.region(st, key, "(Array Int Int)"), r.t))
	if m, ok := x.X.Type().Underlying().(*types.Map); ok {
		// Map iteration visits every key exactly once in an ARBITRARY order: an uninterpreted
		// enumeration keys[0..n) of the key set at the time the range starts.
		ks := s.tc.sortOf(m.Key())
		mv := s.val(x.X)
		s.nfresh++
		id := s.nfresh
		keysF := s.uf(fmt.Sprintf("mapiter.key!%d", id), []string{"Int"}, ks)
		posF := s.uf(fmt.Sprintf("mapiter.pos!%d", id), []string{ks}, "Int")
		n := s.fresh("mapiter.n", "Int")
		H := s.region(st, mapHasRegion(m), s.mapHasSort(m))
		has := func(k string) string {
			return fmt.Sprintf("(and (distinct %s 0) (select (select %s %s) %s))", mv.t, H, mv.t, k)
		}
		s.assume(fmt.Sprintf("(<= 0 %s)", n))
		s.assume(fmt.Sprintf("(forall ((i Int)) (! (=> (and (<= 0 i) (< i %s)) (and %s (= (%s (%s i)) i))) :pattern ((%s i))))", n, has(fmt.Sprintf("(%s i)", keysF)), posF, keysF, keysF))
		s.assume(fmt.Sprintf("(forall ((k %s)) (! (=> %s (and (<= 0 (%s k)) (< (%s k) %s) (= (%s (%s k)) k))) :pattern ((%s k))))", ks, has("k"), posF, posF, n, keysF, posF, posF))
		s.mapIters[x] = &mapIter{keys: keysF, pos: posF, n: n, m: m, mapVal: mv.t}
	}
}

type mapIter struct {
	keys, pos, n string
	m            *types.Map
	mapVal       string
}

func (s *Sess) execNext(x *ssa.Next, st *State) {
	it := s.val(x.Iter)
	rng := x.Iter.(*ssa.Range)
	key := "C:$iterpos"
	H := s.region(st, key, "(Array Int Int)")
	pos := s.define("itpos", "Int", fmt.Sprintf("(select %s %s)", H, it.t))
	if x.IsString {
		str := s.val(rng.X)
		ok := s.define("nok", "Bool", fmt.Sprintf("(< %s (str.len %s))", pos, str.t))
		w := s.fresh("rw", "Int")
		rn := s.fresh("rune", "Int")
		s.assume(fmt.Sprintf("(and (<= 1 %s) (<= %s 4) (<= (- 2147483648) %s) (<= %s 2147483647))", w, w, rn, rn))
		s.assume(fmt.Sprintf("(=> %s (and (<= (+ %s %s) (str.len %s)) (=> (< (str.to_code (str.at %s %s)) 128) (and (= %s 1) (= %s (str.to_code (str.at %s %s)))))))", ok, pos, w, str.t, str.t, pos, w, rn, str.t, pos))
		s.setRegion(st, key, "(Array Int Int)", fmt.Sprintf("(store %s %s (ite %s (+ %s %s) %s))", H, it.t, ok, pos, w, pos))
		s.env[x] = Val{parts: []Val{{t: ok, typ: types.Typ[types.Bool]}, {t: pos, typ: types.Typ[types.Int]}, {t: rn, typ: types.Typ[types.Rune]}}, typ: x.Type()}
		return
	}
	m := rng.X.Type().Underlying().(*types.Map)
	mi := s.mapIters[rng]
	if mi == nil {
		s.unsupp("map iterator without range")
		s.havocVal(x, st)
		return
	}
	ok := s.define("nok", "Bool", fmt.Sprintf("(and (<= 0 %s) (< %s %s))", pos, pos, mi.n))
	k := s.define("mk", s.tc.sortOf(m.Key()), fmt.Sprintf("(%s %s)", mi.keys, pos))
	_, val := s.mapGet(st, m, mi.mapVal, k)
	v := s.define("mval", s.tc.sortOf(m.Elem()), val)
	s.assumeAt(st, and(s.wf(k, m.Key(), st.top), s.wf(v, m.Elem(), st.top)))
	s.assumeAt(st, fmt.Sprintf("(<= 0 %s)", pos))
	s.setRegion(st, key, "(Array Int Int)", fmt.Sprintf("(store %s %s (ite %s (+ %s 1) %s))", H, it.t, ok, pos, pos))
	s.env[x] = Val{parts: []Val{{t: ok, typ: types.Typ[types.Bool]}, {t: k, typ: m.Key()}, {t: v, typ: m.Elem()}}, typ: x.Type()}
}

func blockReaches(from, to *ssa.BasicBlock) bool {
	seen := map[*ssa.BasicBlock]bool{}
	stack := []*ssa.BasicBlock{from}
	for len(stack) > 0 {
		b := stack[len(stack)-1]
		stack = stack[:len(stack)-1]
		if b == to {
			return true
		}
		if seen[b] {
			continue
		}
		seen[b] = true
		stack = append(stack, b.Succs...)
	}
	return false
}

// isGeneratedMsgPtr: pointer to a protoc-gen-go message struct (it has the ProtoReflect method and the
// generated 'state' field).
func isGeneratedMsgPtr(T types.Type) bool {
	p, ok := T.Underlying().(*types.Pointer)
	if !ok {
		return false
	}
	n, ok := types.Unalias(p.Elem()).(*types.Named)
	if !ok {
		return false
	}
	st, ok := n.Underlying().(*types.Struct)
	if !ok || st.NumFields() == 0 || st.Field(0).Name() != "state" {
		return false
	}
	for i := 0; i < n.NumMethods(); i++ {
		if n.Method(i).Name() == "ProtoReflect" {
			return true
		}
	}
	return false
}

// isOneofWrapperPtr: pointer to a protoc-gen-go oneof wrapper struct (one field, marker method isX_Y).
func isOneofWrapperPtr(T types.Type) bool {
	p, ok := T.Underlying().(*types.Pointer)
	if !ok {
		return false
	}
	n, ok := types.Unalias(p.Elem()).(*types.Named)
	if !ok {
		return false
	}
	st, ok := n.Underlying().(*types.Struct)
	if !ok || st.NumFields() != 1 {
		return false
	}
	ms := types.NewMethodSet(p)
	for i := 0; i < ms.Len(); i++ {
		if strings.HasPrefix(ms.At(i).Obj().Name(), "is") && !ms.At(i).Obj().Exported() {
			return true
		}
	}
	return false
}
