package main

// Verification-condition generator: go/ssa function -> ordered SMT commands with named obligations.
// Forward symbolic execution over the loop-cut CFG (loops cut at natural-loop headers, havoc +
// invariant), state merged at joins with ite over edge conditions. SSA values are single-assignment,
// so every value is one SMT constant defined by one equation.

import (
	"fmt"
	"go/constant"
	"go/token"
	"go/types"
	"sort"
	"strings"

	"golang.org/x/tools/go/ssa"
)

type seqV struct{ arr, off, ln string }

type Val struct {
	seq   *seqV // pure sequence value (contract expressions only)
	t     string
	parts []Val
	place *Place
	typ   types.Type
	clo   *ssa.MakeClosure
}

type pstep struct {
	field int        // >=0: struct field index
	styp  types.Type // struct type (field step) or array type (index step)
	index string     // array index term when field < 0
}

type Place struct {
	region string
	rsort  string // sort of the region array itself
	base   string
	idx    string // "" unless element of a backing store
	path   []pstep
	typ    types.Type // pointee type
}

type State struct {
	reach string
	heap  map[string]string
	top   string
	base  string // epoch of regions not in heap: "H0" initially, renewed by a havoc of everything
}

func (st *State) clone() *State {
	h := make(map[string]string, len(st.heap))
	for k, v := range st.heap {
		h[k] = v
	}
	return &State{reach: st.reach, heap: h, top: st.top, base: st.base}
}

type Obligation struct {
	Name    string
	Kind    string
	Formula string // must hold (already guarded by reachability)
	Pos     string
	Detail  string
	cmdIdx  int
	blk      int
	NoAssume bool        // never assumed by later obligations (e.g. a detached contract clause)
	MustFail bool        // vacuity guard: this formula must NOT be provable
	Houdini *houdiniCand // non-nil: candidate invariant check, failure drops the candidate silently

	Status string // "unsat"(discharged) "sat" "unknown" "timeout"
	Solver string
	TimeS  float64
	Model  string
}

type Cmd struct {
	kind byte // 'd' declaration/definition, 'a' assumption, 'o' obligation
	text string
	ob   *Obligation
	blk  int // index of the basic block the command was generated in (-1: not tied to a block)
}

type loopInfo struct {
	header  *ssa.BasicBlock
	blocks  map[*ssa.BasicBlock]bool
	ordinal int
	mod     map[string]bool // regions possibly written in the loop
	spec    *LoopSpec
	names   map[string]func(phiVal func(*ssa.Phi) Val, st *State) (Val, bool)
	entryTop string
	decrAtHead string
	cands   []*houdiniCand
	headState *State
}

type houdiniCand struct {
	desc   string
	expr   func(phiVal func(*ssa.Phi) Val) string
	alive  bool
	loop   *loopInfo
}

type Sess struct {
	eng  *Engine
	fn   *ssa.Function
	ct   *Contract
	tc   *TypeCtx
	cmds []Cmd
	nfresh int
	env  map[ssa.Value]Val
	out  map[*ssa.BasicBlock]*State
	obs  []*Obligation
	ord  map[ssa.Instruction]int
	regionSort map[string]string
	subDone map[string]bool
	globals []string
	unsupported []string
	warnings []string
	loops map[*ssa.BasicBlock]*loopInfo
	loopList []*loopInfo
	entry *State
	defers []*ssa.Defer
	rets []retInfo
	nilcheck bool
	arithChecked bool
	convChecked bool
	debugRefs map[string][]*ssa.DebugRef
	funcsUsed map[string]bool // contracts applied (callee keys)
	trustedUsed map[string]bool
	havocCalls map[string]bool
	deadCands map[string]bool
	preDead map[string]bool
	curBlk int
	noSlice bool
	reachTo map[int]map[int]bool
	namePrefix string
	nInline int
	inlineStack []*ssa.Function
	inlined map[string]bool
	inlineDepth int
	mapIters map[*ssa.Range]*mapIter
	absStr bool
	epochTop map[string]string
	privCells *[]*ssa.Alloc
	heapReads int // counts region reads (used to reject heap-reading opaque definitions)
	inlineSites []ssa.CallInstruction
	epochPrev map[string][]epochPred // the states a heap epoch was started from
	axioms []string
	edgeDead map[[2]int]bool // path mode: edges (from,to block index) not on the path
	axiomsUsed []string
	axiomDone map[string]bool
	specUsed map[string]bool
	paramVals map[string]Val
	ufDecl map[string]bool
}

type retInfo struct {
	st   *State
	vals []Val
	pos  token.Pos
	blk  int
}

func (s *Sess) emitDecl(t string)   { s.cmds = append(s.cmds, Cmd{'d', t, nil, s.curBlk}) }
func (s *Sess) assume(f string) {
	if f == "true" || f == "" {
		return
	}
	s.cmds = append(s.cmds, Cmd{'a', "(assert " + f + ")", nil, s.curBlk})
}
func (s *Sess) assumeAt(st *State, f string) { s.assume(implies(st.reach, f)) }

func (s *Sess) fresh(prefix, sort string) string {
	s.nfresh++
	n := q(fmt.Sprintf("%s!%d", prefix, s.nfresh))
	s.emitDecl(fmt.Sprintf("(declare-const %s %s)", n, sort))
	return n
}

// define introduces a named constant equal to term (keeps terms small and models readable).
func (s *Sess) define(prefix, sort, term string) string {
	if len(term) < 24 && !strings.Contains(term, " ") {
		return term
	}
	n := s.fresh(prefix, sort)
	s.cmds = append(s.cmds, Cmd{'d', fmt.Sprintf("(assert (= %s %s))", n, term), nil, s.curBlk})
	return n
}

func (s *Sess) posOf(p token.Pos) string {
	if !p.IsValid() {
		return ""
	}
	ps := s.eng.fset.Position(p)
	return fmt.Sprintf("%s:%d", strings.TrimPrefix(ps.Filename, "/repo/"), ps.Line)
}

func (s *Sess) oblige(st *State, kind, name, formula string, pos token.Pos, detail string) *Obligation {
	if s.inlineDepth > 0 {
		top := s.inlineStack[len(s.inlineStack)-1]
		if kind != "pre" {
			// the callee's own safety obligations belong to the callee (checked when it is itself a
			// target, otherwise it is listed among the inlined, unchecked callees); here they are
			// assumed, exactly as they were when the call was havoced
			s.assumeAt(st, formula)
			s.inlined[top.String()] = true
			return &Obligation{Name: "inlined", Kind: kind, Formula: "true", Status: "unsat"}
		}
		name = "inl:" + shortName(s.eng.fnShort(top)) + "." + name
	}
	ob := &Obligation{Name: s.eng.fnShort(s.fn) + "#" + name, Kind: kind, Formula: implies(st.reach, formula), Pos: s.posOf(pos), Detail: detail}
	ob.cmdIdx = len(s.cmds)
	ob.blk = s.curBlk
	s.cmds = append(s.cmds, Cmd{'o', "", ob, s.curBlk})
	s.obs = append(s.obs, ob)
	return ob
}

// detached: a contract clause no longer applies to the code (a name it mentions is gone, a call it
// is attached to no longer exists). The property can then not be shown for this function: reported
// as a failed obligation, never silently skipped.
func (s *Sess) detached(f string, a ...any) {
	m := fmt.Sprintf(f, a...)
	for _, ob := range s.obs {
		if ob.Kind == "contract" && ob.Detail == m {
			return
		}
	}
	ob := &Obligation{Name: s.eng.fnShort(s.fn) + "#contract.detached", Kind: "contract", Formula: "false", Pos: s.posOf(s.fn.Pos()), Detail: m, blk: -1, NoAssume: true}
	ob.cmdIdx = len(s.cmds)
	s.cmds = append(s.cmds, Cmd{'o', "", ob, -1})
	s.obs = append(s.obs, ob)
}

func (s *Sess) unsupp(f string, a ...any) {
	m := fmt.Sprintf(f, a...)
	for _, x := range s.unsupported {
		if x == m {
			return
		}
	}
	s.unsupported = append(s.unsupported, m)
}

// ---------------------------------------------------------------------------------------------
// heap access

// global runs f with commands attributed to no block, so that facts established once (and deduped)
// are visible to every sliced query.
func (s *Sess) global(f func()) {
	saved := s.curBlk
	s.curBlk = -1
	f()
	s.curBlk = saved
}

// epochPred is a state from which a heap epoch was started: by a havoc of everything (one
// predecessor; write-once fields of objects below top keep their contents unless the havoc writes
// them explicitly) or by a join of different epochs (one predecessor per incoming edge; the new
// region equals the predecessor's under its edge condition).
type epochPred struct {
	cond   string // "" for a havoc
	heap   map[string]string
	base   string
	top    string
	except map[string]bool
}

func (s *Sess) baseTerm(base, key, sort string) string {
	if base == "" {
		base = "H0"
	}
	s.regionSort[key] = sort
	n := q(base + ":" + key)
	if !s.ufDecl[n] {
		s.ufDecl[n] = true
		blk := s.curBlk
		if base == "H0" {
			s.curBlk = -1 // facts about the initial heap hold everywhere
		}
		s.emitDecl(fmt.Sprintf("(declare-const %s %s)", n, sort))
		top := s.epochTop[base]
		if top == "" {
			top = "top0"
		}
		s.wfRegion(n, key, top)
		for _, pr := range s.epochPrev[base] {
			s.curBlk = -1
			if pr.cond == "" && (!s.eng.immutable[key] || pr.except[key]) {
				continue
			}
			prior, ok := pr.heap[key]
			if !ok {
				prior = s.baseTerm(pr.base, key, sort)
			}
			s.curBlk = -1
			if pr.cond != "" {
				s.assume(fmt.Sprintf("(=> %s (= %s %s))", pr.cond, n, prior))
				continue
			}
			hf := s.fresh("Hf:"+key, sort)
			s.cmds = append(s.cmds, Cmd{'a', fmt.Sprintf("(assert (forall ((o Int)) (! (=> (< o %s) (= (select %s o) (select %s o))) :pattern ((select %s o))))) ;@lambda (assert (= %s (lambda ((o Int)) (ite (< o %s) (select %s o) (select %s o)))))",
				pr.top, n, prior, n, n, pr.top, prior, hf), nil, -1})
		}
		s.curBlk = blk
	}
	return n
}

// wfRegion states the heap type invariant for a region version that is not derived from another
// by stores: every reference stored in it is allocated (below top).
func (s *Sess) wfRegion(term, key, top string) {
	ri, ok := regInfo.Load(key)
	if !ok {
		return
	}
	if strings.HasPrefix(key, "G:ext:") {
		// objects not allocated yet carry no extension
		s.assume(fmt.Sprintf("(forall ((o Int)) (! (=> (>= o %s) (= (select %s o) 0)) :pattern ((select %s o))))", top, term, term))
	}
	r := ri.(regionInfo)
	T := r.typ
	if r.kind == 'M' {
		T = r.m.Elem()
	}
	if T == nil {
		return
	}
	var f func(x string) string
	switch T.Underlying().(type) {
	case *types.Pointer, *types.Map, *types.Signature, *types.Chan:
		f = func(x string) string { return fmt.Sprintf("(< %s %s)", x, top) }
	case *types.Slice:
		f = func(x string) string {
			return fmt.Sprintf("(and (< (s.base %s) %s) (<= 0 (s.base %s)) (<= 0 (s.off %s)) (<= 0 (s.len %s)) (<= (s.len %s) (s.cap %s)))", x, top, x, x, x, x, x)
		}
	default:
		return
	}
	switch r.kind {
	case 'C':
		s.assume(fmt.Sprintf("(forall ((o Int)) (! %s :pattern ((select %s o))))", f(fmt.Sprintf("(select %s o)", term)), term))
	case 'E':
		s.assume(fmt.Sprintf("(forall ((o Int) (i Int)) (! %s :pattern ((select (select %s o) i))))", f(fmt.Sprintf("(select (select %s o) i)", term)), term))
	case 'M':
		ks := s.tc.sortOf(r.m.Key())
		s.assume(fmt.Sprintf("(forall ((o Int) (k %s)) (! %s :pattern ((select (select %s o) k))))", ks, f(fmt.Sprintf("(select (select %s o) k)", term)), term))
	}
}

func (s *Sess) region(st *State, key, sort string) string {
	s.heapReads++
	if t, ok := st.heap[key]; ok {
		return t
	}
	return s.baseTerm(st.base, key, sort)
}

func (s *Sess) setRegion(st *State, key, sort, term string) {
	s.regionSort[key] = sort
	st.heap[key] = s.define("H:"+key, sort, term)
}

func (s *Sess) sortOfRegion(key string) (string, bool) {
	if sort, ok := s.regionSort[key]; ok {
		return sort, true
	}
	ri, ok := regInfo.Load(key)
	if !ok {
		return "", false
	}
	r := ri.(regionInfo)
	var sort string
	switch r.kind {
	case 'E':
		sort = s.elemSort(r.typ)
	case 'C':
		sort = s.cellSort(r.typ)
	case 'M':
		sort = s.mapSort(r.m)
	case 'H':
		sort = s.mapHasSort(r.m)
	}
	s.regionSort[key] = sort
	return sort, true
}

func (s *Sess) havocRegion(st *State, key string) {
	sort, ok := s.sortOfRegion(key)
	if !ok {
		return
	}
	st.heap[key] = s.fresh("Hv:"+key, sort)
	s.wfRegion(st.heap[key], key, st.top)
}

func (s *Sess) fieldSort(f *types.Var) string { return "(Array Int " + s.tc.sortOf(f.Type()) + ")" }
func (s *Sess) elemSort(t types.Type) string  { return "(Array Int (Array Int " + s.tc.sortOf(t) + "))" }
func (s *Sess) cellSort(t types.Type) string  { return "(Array Int " + s.tc.sortOf(t) + ")" }

func (s *Sess) subRef(T types.Type, idx int, ref string) string {
	st, _ := isStruct(T)
	name := q(fmt.Sprintf("sub:%s", fieldRegion(T, st.Field(idx), idx)))
	inv := q(fmt.Sprintf("subinv:%s", fieldRegion(T, st.Field(idx), idx)))
	if !s.ufDecl[name] {
		s.ufDecl[name] = true
		s.emitDecl(fmt.Sprintf("(declare-fun %s (Int) Int)", name))
		s.emitDecl(fmt.Sprintf("(declare-fun %s (Int) Int)", inv))
	}
	t := fmt.Sprintf("(%s %s)", name, ref)
	if !s.subDone[t] {
		s.subDone[t] = true
		tag := s.tc.tagOf(types.NewPointer(types.NewTuple(types.NewVar(token.NoPos, nil, name, T)))) // unique tag per (T, field)
		fact := fmt.Sprintf("(and (= (%s %s) %s) (< %s 0) (= (subtag %s) %d))", inv, t, ref, t, t, tag)
		s.global(func() { s.assume(fact) })
	}
	return t
}

// loadObj reads a whole struct value from the object at ref.
func (s *Sess) loadObj(st *State, T types.Type, ref string) string {
	stt, _ := isStruct(T)
	si := s.tc.structSort(T)
	if stt.NumFields() == 0 {
		return s.tc.ctor(si)
	}
	var parts []string
	for i := 0; i < stt.NumFields(); i++ {
		f := stt.Field(i)
		parts = append(parts, s.loadFieldTerm(st, T, i, f, ref))
	}
	return "(" + s.tc.ctor(si) + " " + strings.Join(parts, " ") + ")"
}

func (s *Sess) loadFieldTerm(st *State, T types.Type, i int, f *types.Var, ref string) string {
	switch u := f.Type().Underlying().(type) {
	case *types.Struct:
		return s.loadObj(st, f.Type(), s.subRef(T, i, ref))
	case *types.Array:
		return fmt.Sprintf("(select %s %s)", s.region(st, elemRegion(u.Elem()), s.elemSort(u.Elem())), s.subRef(T, i, ref))
	}
	return fmt.Sprintf("(select %s %s)", s.region(st, fieldRegion(T, f, i), s.fieldSort(f)), ref)
}

func (s *Sess) storeObj(st *State, T types.Type, ref, val string) {
	stt, _ := isStruct(T)
	si := s.tc.structSort(T)
	for i := 0; i < stt.NumFields(); i++ {
		f := stt.Field(i)
		s.storeFieldTerm(st, T, i, f, ref, fmt.Sprintf("(%s %s)", s.tc.accessor(si, i), val))
	}
}

func (s *Sess) storeFieldTerm(st *State, T types.Type, i int, f *types.Var, ref, val string) {
	switch u := f.Type().Underlying().(type) {
	case *types.Struct:
		s.storeObj(st, f.Type(), s.subRef(T, i, ref), val)
		return
	case *types.Array:
		key := elemRegion(u.Elem())
		s.setRegion(st, key, s.elemSort(u.Elem()), fmt.Sprintf("(store %s %s %s)", s.region(st, key, s.elemSort(u.Elem())), s.subRef(T, i, ref), val))
		return
	}
	key := fieldRegion(T, f, i)
	s.setRegion(st, key, s.fieldSort(f), fmt.Sprintf("(store %s %s %s)", s.region(st, key, s.fieldSort(f)), ref, val))
}

func (s *Sess) placeRoot(st *State, p *Place) string {
	h := s.region(st, p.region, p.rsort)
	if p.idx != "" {
		return fmt.Sprintf("(select (select %s %s) %s)", h, p.base, p.idx)
	}
	return fmt.Sprintf("(select %s %s)", h, p.base)
}

func (s *Sess) applyPath(root string, path []pstep) string {
	t := root
	for _, ps := range path {
		if ps.field >= 0 {
			si := s.tc.structSort(ps.styp)
			t = fmt.Sprintf("(%s %s)", s.tc.accessor(si, ps.field), t)
		} else {
			t = fmt.Sprintf("(select %s %s)", t, ps.index)
		}
	}
	return t
}

func (s *Sess) updatePath(root string, path []pstep, v string) string {
	if len(path) == 0 {
		return v
	}
	ps := path[0]
	if ps.field >= 0 {
		si := s.tc.structSort(ps.styp)
		var parts []string
		for i := range si.fields {
			cur := fmt.Sprintf("(%s %s)", s.tc.accessor(si, i), root)
			if i == ps.field {
				parts = append(parts, s.updatePath(cur, path[1:], v))
			} else {
				parts = append(parts, cur)
			}
		}
		return "(" + s.tc.ctor(si) + " " + strings.Join(parts, " ") + ")"
	}
	cur := fmt.Sprintf("(select %s %s)", root, ps.index)
	return fmt.Sprintf("(store %s %s %s)", root, ps.index, s.updatePath(cur, path[1:], v))
}

func (s *Sess) readPlace(st *State, p *Place) string {
	return s.applyPath(s.placeRoot(st, p), p.path)
}

func (s *Sess) writePlace(st *State, p *Place, v string) {
	h := s.region(st, p.region, p.rsort)
	if len(p.path) > 0 {
		root := s.define("root", s.rootSort(p), s.placeRoot(st, p))
		v = s.updatePath(root, p.path, v)
	}
	if p.idx != "" {
		s.setRegion(st, p.region, p.rsort, fmt.Sprintf("(store %s %s (store (select %s %s) %s %s))", h, p.base, h, p.base, p.idx, v))
	} else {
		s.setRegion(st, p.region, p.rsort, fmt.Sprintf("(store %s %s %s)", h, p.base, v))
	}
}

func (s *Sess) rootSort(p *Place) string {
	// p.rsort is "(Array Int X)" or "(Array Int (Array Int X))"
	r := strings.TrimSuffix(strings.TrimPrefix(p.rsort, "(Array Int "), ")")
	if p.idx != "" {
		r = strings.TrimSuffix(strings.TrimPrefix(r, "(Array Int "), ")")
	}
	return r
}

// load dereferences pointer value p whose pointee type is T.
func (s *Sess) load(st *State, p Val, T types.Type) string {
	if p.place != nil {
		return s.readPlace(st, p.place)
	}
	switch u := T.Underlying().(type) {
	case *types.Struct:
		return s.loadObj(st, T, p.t)
	case *types.Array:
		return fmt.Sprintf("(select %s %s)", s.region(st, elemRegion(u.Elem()), s.elemSort(u.Elem())), p.t)
	}
	return fmt.Sprintf("(select %s %s)", s.region(st, cellRegion(T), s.cellSort(T)), p.t)
}

func (s *Sess) store(st *State, p Val, T types.Type, v string) {
	if p.place != nil {
		s.writePlace(st, p.place, v)
		return
	}
	switch u := T.Underlying().(type) {
	case *types.Struct:
		v = s.define("sv", s.tc.sortOf(T), v)
		s.storeObj(st, T, p.t, v)
		return
	case *types.Array:
		key := elemRegion(u.Elem())
		s.setRegion(st, key, s.elemSort(u.Elem()), fmt.Sprintf("(store %s %s %s)", s.region(st, key, s.elemSort(u.Elem())), p.t, v))
		return
	}
	key := cellRegion(T)
	s.setRegion(st, key, s.cellSort(T), fmt.Sprintf("(store %s %s %s)", s.region(st, key, s.cellSort(T)), p.t, v))
}

// wf is the type invariant assumed of a value of Go type T read from a parameter, the heap or a call.
func (s *Sess) wf(t string, T types.Type, top string) string {
	switch u := T.Underlying().(type) {
	case *types.Basic:
		if lo, hi, ok := intRange(T); ok {
			return fmt.Sprintf("(and (<= %s %s) (<= %s %s))", lo, t, t, hi)
		}
		if u.Kind() == types.UnsafePointer {
			return fmt.Sprintf("(< %s %s)", t, top)
		}
		return "true"
	case *types.Pointer, *types.Map, *types.Chan, *types.Signature:
		return fmt.Sprintf("(< %s %s)", t, top)
	case *types.Slice:
		return fmt.Sprintf("(and (< (s.base %s) %s) (<= 0 (s.base %s)) (<= 0 (s.off %s)) (<= 0 (s.len %s)) (<= (s.len %s) (s.cap %s)) (=> (= (s.base %s) 0) (= (s.cap %s) 0)))", t, top, t, t, t, t, t, t, t)
	case *types.Interface:
		if isOneofWrapperIface(T) {
			// generated protobuf oneof field: a non-nil interface value holds a non-nil wrapper pointer
			// (protobuf-go never stores a typed nil wrapper; modelling assumption, listed)
			s.trustedUsed["generated protobuf oneof fields never hold a typed nil wrapper pointer"] = true
			return fmt.Sprintf("(and (<= 0 (i.tag %s)) (= (= (i.tag %s) 0) (= (i.val %s) 0)))", t, t, t)
		}
		return fmt.Sprintf("(and (<= 0 (i.tag %s)) (=> (= (i.tag %s) 0) (= (i.val %s) 0)))", t, t, t)
	case *types.Struct:
		si := s.tc.structSort(T)
		var cs []string
		for i, f := range si.fields {
			cs = append(cs, s.wf(fmt.Sprintf("(%s %s)", s.tc.accessor(si, i), t), f.Type(), top))
		}
		return and(cs...)
	}
	return "true"
}

// isOneofWrapperIface recognises the marker interfaces protoc-gen-go emits for oneof fields:
// `type isFoo_Bar interface { isFoo_Bar() }`.
func isOneofWrapperIface(T types.Type) bool {
	n, ok := types.Unalias(T).(*types.Named)
	if !ok {
		return false
	}
	it, ok := n.Underlying().(*types.Interface)
	if !ok || it.NumMethods() != 1 {
		return false
	}
	name := n.Obj().Name()
	return strings.HasPrefix(name, "is") && it.Method(0).Name() == name
}

// ---------------------------------------------------------------------------------------------
// values

func (s *Sess) constVal(c *ssa.Const) Val {
	T := c.Type()
	if c.Value == nil {
		return Val{t: s.tc.zero(T), typ: T}
	}
	switch c.Value.Kind() {
	case constant.Bool:
		if constant.BoolVal(c.Value) {
			return Val{t: "true", typ: T}
		}
		return Val{t: "false", typ: T}
	case constant.String:
		return Val{t: smtStr(constant.StringVal(c.Value)), typ: T}
	case constant.Int:
		if b, ok := T.Underlying().(*types.Basic); ok && b.Info()&types.IsFloat != 0 {
			return Val{t: s.fltConst(c.Value.ExactString()), typ: T}
		}
		str := c.Value.ExactString()
		if strings.HasPrefix(str, "-") {
			str = "(- " + str[1:] + ")"
		}
		return Val{t: str, typ: T}
	case constant.Float, constant.Complex:
		if b, ok := T.Underlying().(*types.Basic); ok && b.Info()&types.IsInteger != 0 {
			if i, ok := constant.Int64Val(constant.ToInt(c.Value)); ok {
				return Val{t: smtInt(i), typ: T}
			}
		}
		return Val{t: s.fltConst(c.Value.ExactString()), typ: T}
	}
	return Val{t: s.fresh("const", s.tc.sortOf(T)), typ: T}
}

func (s *Sess) fltConst(repr string) string {
	n := q("flt:" + repr)
	if !s.ufDecl[n] {
		s.ufDecl[n] = true
		s.emitDecl(fmt.Sprintf("(declare-const %s Flt)", n))
	}
	return n
}

func (s *Sess) val(v ssa.Value) Val {
	if x, ok := s.env[v]; ok {
		return x
	}
	switch v := v.(type) {
	case *ssa.Const:
		return s.constVal(v)
	case *ssa.Global:
		n := q("g:" + v.Pkg.Pkg.Path() + "." + v.Name())
		if !s.ufDecl[n] {
			s.ufDecl[n] = true
			s.global(func() {
				s.emitDecl(fmt.Sprintf("(declare-const %s Int)", n))
				s.assume(fmt.Sprintf("(and (< 0 %s) (< %s top0))", n, n))
				for _, g := range s.globals {
					s.assume(fmt.Sprintf("(distinct %s %s)", n, g))
				}
			})
			s.globals = append(s.globals, n)
		}
		x := Val{t: n, typ: v.Type()}
		s.env[v] = x
		return x
	case *ssa.Function:
		n := q("fn:" + v.String())
		if !s.ufDecl[n] {
			s.ufDecl[n] = true
			s.global(func() {
				s.emitDecl(fmt.Sprintf("(declare-const %s Int)", n))
				s.assume(fmt.Sprintf("(and (< 0 %s) (< %s top0))", n, n))
			})
		}
		return Val{t: n, typ: v.Type()}
	case *ssa.Builtin:
		return Val{t: "0", typ: v.Type()}
	}
	// value not yet defined (e.g. defined in an unreachable or unsupported region)
	s.unsupp("use of undefined value %s (%T)", v.Name(), v)
	x := Val{t: s.fresh("undef", s.tc.sortOf(v.Type())), typ: v.Type()}
	s.env[v] = x
	return x
}

func (s *Sess) setVal(v ssa.Value, term string, st *State) Val {
	T := v.Type()
	name := q("v:" + s.namePrefix + v.Name())
	s.emitDecl(fmt.Sprintf("(declare-const %s %s)", name, s.tc.sortOf(T)))
	s.cmds = append(s.cmds, Cmd{'d', fmt.Sprintf("(assert (= %s %s))", name, term), nil, s.curBlk})
	x := Val{t: name, typ: T}
	s.env[v] = x
	return x
}

func (s *Sess) havocVal(v ssa.Value, st *State) Val {
	T := v.Type()
	name := q("v:" + s.namePrefix + v.Name())
	s.emitDecl(fmt.Sprintf("(declare-const %s %s)", name, s.tc.sortOf(T)))
	s.assumeAt(st, s.wf(name, T, st.top))
	x := Val{t: name, typ: T}
	s.env[v] = x
	return x
}

// ---------------------------------------------------------------------------------------------
// CFG analysis

func (s *Sess) findLoops() {
	fn := s.fn
	s.loops = map[*ssa.BasicBlock]*loopInfo{}
	for _, b := range fn.Blocks {
		for _, succ := range b.Succs {
			if succ.Dominates(b) { // back edge b -> succ
				li := s.loops[succ]
				if li == nil {
					li = &loopInfo{header: succ, blocks: map[*ssa.BasicBlock]bool{succ: true}, mod: map[string]bool{}}
					s.loops[succ] = li
				}
				// natural loop: nodes that reach b without passing through header
				stack := []*ssa.BasicBlock{b}
				for len(stack) > 0 {
					x := stack[len(stack)-1]
					stack = stack[:len(stack)-1]
					if li.blocks[x] {
						continue
					}
					li.blocks[x] = true
					stack = append(stack, x.Preds...)
				}
			}
		}
	}
	var hs []*ssa.BasicBlock
	for h := range s.loops {
		hs = append(hs, h)
	}
	// ordinal by source position of the header's first positioned instruction, falling back to block index
	sort.Slice(hs, func(i, j int) bool { return s.loopPos(hs[i]) < s.loopPos(hs[j]) })
	for i, h := range hs {
		s.loops[h].ordinal = i
		s.loopList = append(s.loopList, s.loops[h])
		if s.ct != nil {
			s.loops[h].spec = s.ct.Loops[i]
			// the receiver's type invariant holds at every loop head of a method (checked like a
			// written invariant)
			var implicit []*Clause
			for _, r := range s.ct.Requires {
				if strings.HasPrefix(r.Label, "typeinv") {
					c := *r
					implicit = append(implicit, &c)
				}
			}
			if len(implicit) > 0 {
				ls := &LoopSpec{}
				if s.loops[h].spec != nil {
					*ls = *s.loops[h].spec
				}
				ls.Invariants = append(append([]*Clause{}, implicit...), ls.Invariants...)
				s.loops[h].spec = ls
			}
		}
	}
}

func (s *Sess) loopPos(h *ssa.BasicBlock) int {
	best := token.Pos(0)
	li := s.loops[h]
	for b := range li.blocks {
		for _, in := range b.Instrs {
			switch in.(type) {
			case *ssa.Phi, *ssa.DebugRef:
				continue // a phi carries the position of the variable's declaration, not of the loop
			}
			if p := in.Pos(); p.IsValid() && (best == 0 || p < best) {
				best = p
			}
		}
	}
	if best == 0 {
		return 1<<40 + h.Index
	}
	return int(best)*4096 + h.Index%4096
}

func (s *Sess) rpo() []*ssa.BasicBlock {
	seen := map[*ssa.BasicBlock]bool{}
	var post []*ssa.BasicBlock
	var dfs func(b *ssa.BasicBlock)
	dfs = func(b *ssa.BasicBlock) {
		seen[b] = true
		for _, sc := range b.Succs {
			if !seen[sc] && !sc.Dominates(b) {
				dfs(sc)
			}
		}
		post = append(post, b)
	}
	dfs(s.fn.Blocks[0])
	for i, j := 0, len(post)-1; i < j; i, j = i+1, j-1 {
		post[i], post[j] = post[j], post[i]
	}
	return post
}

func (s *Sess) edgeCond(p, b *ssa.BasicBlock) string {
	st := s.out[p]
	if st == nil || s.edgeDead[[2]int{p.Index, b.Index}] || st.reach == "false" {
		return "false"
	}
	if iff, ok := p.Instrs[len(p.Instrs)-1].(*ssa.If); ok {
		c := s.val(iff.Cond).t
		if p.Succs[0] == b && p.Succs[1] == b {
			return st.reach
		}
		if p.Succs[0] == b {
			return and(st.reach, c)
		}
		return and(st.reach, not(c))
	}
	return st.reach
}

// mergeStates joins the exit states of preds (with their edge conditions).
func (s *Sess) mergeStates(b *ssa.BasicBlock, preds []*ssa.BasicBlock) *State {
	var sts []*State
	var conds []string
	for _, p := range preds {
		if s.out[p] == nil {
			continue
		}
		if c := s.edgeCond(p, b); c != "false" {
			sts = append(sts, s.out[p])
			conds = append(conds, c)
		}
	}
	if len(sts) == 0 {
		return &State{reach: "false", heap: map[string]string{}, top: "top0", base: "H0"}
	}
	if len(sts) == 1 {
		st := sts[0].clone()
		st.reach = s.define(fmt.Sprintf("r:b%d", b.Index), "Bool", conds[0])
		return st
	}
	st := &State{heap: map[string]string{}, base: sts[0].base}
	st.reach = s.define(fmt.Sprintf("r:b%d", b.Index), "Bool", or(conds...))
	ite := func(terms []string) string {
		r := terms[len(terms)-1]
		for i := len(terms) - 2; i >= 0; i-- {
			if terms[i] != r {
				r = fmt.Sprintf("(ite %s %s %s)", conds[i], terms[i], r)
			}
		}
		return r
	}
	{
		var tops []string
		same := true
		for _, x := range sts {
			tops = append(tops, x.top)
			if x.top != tops[0] {
				same = false
			}
		}
		if same {
			st.top = tops[0]
		} else {
			st.top = s.define("top", "Int", ite(tops))
		}
	}
	keys := map[string]bool{}
	for _, x := range sts {
		for k := range x.heap {
			keys[k] = true
		}
		if x.base != st.base {
			// different epochs meet: every region known so far is merged explicitly, anything
			// first touched later starts a new epoch
			for k := range s.regionSort {
				keys[k] = true
			}
			s.nfresh++
			st.base = fmt.Sprintf("Hj%d", s.nfresh)
			s.epochTop[st.base] = st.top
			var preds []epochPred
			for i, y := range sts {
				preds = append(preds, epochPred{cond: conds[i], heap: y.heap, base: y.base})
			}
			s.epochPrev[st.base] = preds
		}
	}
	for _, k := range sortedKeys(keys) {
		var terms []string
		same := true
		for _, x := range sts {
			t, ok := x.heap[k]
			if !ok {
				t = s.baseTerm(x.base, k, s.regionSort[k])
			}
			terms = append(terms, t)
			if t != terms[0] {
				same = false
			}
		}
		if same {
			if terms[0] != s.baseTerm(st.base, k, s.regionSort[k]) {
				st.heap[k] = terms[0]
			}
			continue
		}
		st.heap[k] = s.define("Hm:"+k, s.regionSort[k], ite(terms))
	}
	return st
}

// ---------------------------------------------------------------------------------------------
// driver

func (s *Sess) run() {
	fn := s.fn
	s.env = map[ssa.Value]Val{}
	s.out = map[*ssa.BasicBlock]*State{}
	s.regionSort = map[string]string{}
	s.subDone = map[string]bool{}
	s.ufDecl = map[string]bool{}
	s.funcsUsed = map[string]bool{}
	s.trustedUsed = map[string]bool{}
	s.havocCalls = map[string]bool{}
	s.deadCands = s.preDead
	if s.deadCands == nil {
		s.deadCands = map[string]bool{}
	}
	s.paramVals = map[string]Val{}
	s.inlined = map[string]bool{}
	s.mapIters = map[*ssa.Range]*mapIter{}
	s.epochTop = map[string]string{}
	s.privCells = nil
	s.epochPrev = map[string][]epochPred{}
	s.tc = newTypeCtx(s.emitDecl)
	s.emitDecl("(declare-const top0 Int)")
	s.assume("(< 0 top0)")
	s.eng.declareSpecFuncs(s)
	if s.ct != nil {
		if s.ct.Opts["nilcheck"] != "" {
			s.nilcheck = true
		}
		if s.ct.Opts["arith"] == "checked" {
			s.arithChecked = true
			s.convChecked = true
		}
		if s.ct.Opts["conv"] == "checked" {
			s.convChecked = true
		}
	}
	if s.eng.nilcheckAll {
		s.nilcheck = true
	}
	s.absStr = true
	if s.ct != nil && s.ct.Opts["strings"] == "smt" {
		s.absStr = false
	}
	if s.ct != nil && s.ct.Opts["nonilcheck"] != "" {
		s.nilcheck = false
	}
	if s.ct != nil {
		for _, a := range s.ct.Asserts {
			a.seen = false
		}
	}
	s.collectDebugRefs()
	s.assignOrdinals()
	s.findLoops()
	s.computeLoopMods()

	s.curBlk = -1
	entry := &State{reach: "true", heap: map[string]string{}, top: "top0", base: "H0"}
	s.entry = entry
	for _, p := range fn.Params {
		name := q("p:" + p.Name())
		s.emitDecl(fmt.Sprintf("(declare-const %s %s)", name, s.tc.sortOf(p.Type())))
		s.assume(s.wf(name, p.Type(), "top0"))
		s.env[p] = Val{t: name, typ: p.Type()}
		s.paramVals[p.Name()] = s.env[p]
	}
	for _, p := range fn.FreeVars {
		name := q("fv:" + p.Name())
		s.emitDecl(fmt.Sprintf("(declare-const %s %s)", name, s.tc.sortOf(p.Type())))
		s.assume(s.wf(name, p.Type(), "top0"))
		s.assume(fmt.Sprintf("(distinct %s 0)", name))
		s.env[p] = Val{t: name, typ: p.Type()}
		s.paramVals[p.Name()] = s.env[p]
	}
	// free variables are distinct cells
	for i, a := range fn.FreeVars {
		for _, b := range fn.FreeVars[i+1:] {
			if types.Identical(a.Type(), b.Type()) {
				s.assume(fmt.Sprintf("(distinct %s %s)", s.env[a].t, s.env[b].t))
			}
		}
	}
	// A closure sees the variables it captured in a visible state: the type invariant of a captured
	// value holds on entry (it is an obligation where the closure is made, see MakeClosure).
	if fn.Parent() != nil {
		for _, p := range fn.FreeVars {
			pt, ok := p.Type().(*types.Pointer)
			if !ok {
				continue
			}
			invs := s.eng.typeInvsFor(pt.Elem())
			if len(invs) == 0 {
				continue
			}
			capName := "$cap." + p.Name()
			s.paramVals[capName] = Val{t: s.load(entry, s.env[p], pt.Elem()), typ: pt.Elem()}
			for _, ti := range invs {
				if ti.C.E == nil {
					continue
				}
				ce := s.funcEnv(entry, entry, nil)
				v, err := ce.evalAssume(renameIdent(ti.C.E, "$recv", capName))
				if err != nil {
					s.detached("captured %s: type invariant %q: %v", p.Name(), ti.C.Src, err)
					continue
				}
				s.assume(v)
			}
		}
	}
	s.assumeFreeInvs(entry)
	// receiver assumed non-nil when the option says so
	if s.ct != nil {
		for _, c := range s.ct.Requires {
			if c.E == nil {
				continue
			}
			ce := s.funcEnv(entry, entry, nil)
			v, err := ce.evalAssume(c.E)
			if err != nil {
				s.detached("requires %q: %v", c.Src, err)
				continue
			}
			s.assume(v)
		}
	}
	entrySnapshot := entry.clone()
	s.entry = entrySnapshot

	order := s.rpo()
	for _, b := range order {
		s.curBlk = b.Index
		st := s.enterBlock(b)
		for _, in := range b.Instrs {
			s.exec(in, st)
		}
		s.out[b] = st
		// back edges out of b
		for _, succ := range b.Succs {
			if li := s.loops[succ]; li != nil && succ.Dominates(b) {
				s.checkBackEdge(li, b)
			}
		}
	}
	s.finish()
	if s.ct != nil {
		for _, a := range s.ct.Asserts {
			if !a.seen {
				s.detached("assert at %s#%d: no such call in the function", a.Callee, a.Ord)
			}
		}
	}
	s.coverCheck()
	s.emitAxioms()
}

func (s *Sess) enterBlock(b *ssa.BasicBlock) *State {
	if b.Index == 0 && len(b.Preds) == 0 {
		return s.entry.clone()
	}
	li := s.loops[b]
	if li == nil {
		return s.mergeStates(b, b.Preds)
	}
	var entryPreds []*ssa.BasicBlock
	for _, p := range b.Preds {
		if !b.Dominates(p) {
			entryPreds = append(entryPreds, p)
		}
	}
	var st *State
	if b.Index == 0 {
		st = s.entry.clone()
	} else {
		st = s.mergeStates(b, entryPreds)
	}
	s.enterLoop(li, st, entryPreds)
	return st
}

func (s *Sess) finish() {
	// postconditions are checked at every return separately: the state of one return has no merged
	// (ite) heaps and only the blocks that can reach it matter
	var live []retInfo
	for _, r := range s.rets {
		if r.st.reach != "false" {
			live = append(live, r)
		}
	}
	if len(live) > 0 {
		s.rets = live
	}
	if s.ct == nil || len(s.ct.Ensures) == 0 || len(s.rets) == 0 {
		return
	}
	for _, r := range s.rets {
		s.curBlk = r.blk
		for i, c := range s.ct.Ensures {
			if c.E == nil || c.Free {
				continue // free ensures: assumed by callers, not an obligation here (listed as an assumption)
			}
			ce := s.funcEnv(r.st, s.entry, r.vals)
			f, err := ce.evalBool(c.E)
			label := c.Label
			if label == "" {
				label = fmt.Sprintf("%d", i)
			}
			if err != nil {
				s.detached("ensures %q: %v", c.Src, err)
				continue
			}
			s.oblige(r.st, "post", "post."+label, f, r.pos, c.Src)
		}
	}
	s.curBlk = -1
}

// coverCheck is the vacuity guard: some return must be reachable under all assumptions made.
func (s *Sess) coverCheck() {
	if len(s.rets) == 0 {
		return
	}
	var rc []string
	for _, r := range s.rets {
		rc = append(rc, r.st.reach)
	}
	ob := s.oblige(&State{reach: "true"}, "cover", "cover", not(or(rc...)), s.fn.Pos(), "vacuity guard: a return is reachable under the assumptions (this check must fail)")
	ob.MustFail = true
}

func (s *Sess) collectDebugRefs() {
	s.debugRefs = map[string][]*ssa.DebugRef{}
	for _, b := range s.fn.Blocks {
		for _, in := range b.Instrs {
			if d, ok := in.(*ssa.DebugRef); ok {
				if o := d.Object(); o != nil {
					s.debugRefs[o.Name()] = append(s.debugRefs[o.Name()], d)
				}
			}
		}
	}
}

// assignOrdinals numbers safety-relevant operations per kind in block order (≈ source order), so
// obligation names do not depend on line numbers or on the traversal order.
func (s *Sess) assignOrdinals() {
	s.ord = map[ssa.Instruction]int{}
	cnt := map[string]int{}
	for _, b := range s.fn.Blocks {
		for _, in := range b.Instrs {
			k := ""
			switch x := in.(type) {
			case *ssa.IndexAddr, *ssa.Index:
				k = "idx"
			case *ssa.Lookup:
				if _, ok := x.X.Type().Underlying().(*types.Basic); ok {
					k = "idx"
				}
			case *ssa.Slice:
				k = "slice"
			case *ssa.TypeAssert:
				if !x.CommaOk {
					k = "assert"
				}
			case *ssa.Panic:
				k = "panic"
			case *ssa.BinOp:
				if x.Op == token.QUO || x.Op == token.REM {
					k = "div"
				} else if x.Op == token.ADD || x.Op == token.SUB || x.Op == token.MUL {
					k = "arith"
				}
			case *ssa.MapUpdate:
				k = "mapw"
			case *ssa.MakeClosure:
				k = "mkclo"
			case *ssa.FieldAddr, *ssa.UnOp, *ssa.Store:
				k = "nil"
			case *ssa.Convert:
				k = "conv"
			case ssa.CallInstruction:
				k = "call:" + s.eng.calleeName(x.Common())
			}
			if k != "" {
				s.ord[in] = cnt[k]
				cnt[k]++
			}
		}
	}
}
