package main

// Abstract string mode: the generated script is rewritten so that Go strings are an uninterpreted
// sort with uninterpreted concatenation/length/prefix functions and a few true axioms. Everything
// provable in this mode is provable with real strings (the axioms hold of real strings); it keeps
// structural proofs inside EUF + arithmetic, away from the solvers' sequence theories.

import (
	"fmt"
	"strings"
)

type sx struct {
	atom string
	list []*sx
	isL  bool
}

func tokenizeSMT(src string) []string {
	var toks []string
	i := 0
	for i < len(src) {
		c := src[i]
		switch {
		case c == ' ' || c == '\n' || c == '\t' || c == '\r':
			i++
		case c == ';':
			for i < len(src) && src[i] != '\n' {
				i++
			}
		case c == '(' || c == ')':
			toks = append(toks, string(c))
			i++
		case c == '"':
			j := i + 1
			for j < len(src) {
				if src[j] == '"' {
					if j+1 < len(src) && src[j+1] == '"' {
						j += 2
						continue
					}
					break
				}
				j++
			}
			toks = append(toks, src[i:j+1])
			i = j + 1
		case c == '|':
			j := i + 1
			for j < len(src) && src[j] != '|' {
				j++
			}
			toks = append(toks, src[i:j+1])
			i = j + 1
		default:
			j := i
			for j < len(src) && !strings.ContainsRune(" \n\t\r()", rune(src[j])) {
				j++
			}
			toks = append(toks, src[i:j])
			i = j
		}
	}
	return toks
}

func parseSX(toks []string, p *int) *sx {
	t := toks[*p]
	*p++
	if t == "(" {
		n := &sx{isL: true}
		for *p < len(toks) && toks[*p] != ")" {
			n.list = append(n.list, parseSX(toks, p))
		}
		*p++
		return n
	}
	return &sx{atom: t}
}

func (n *sx) write(sb *strings.Builder) {
	if !n.isL {
		sb.WriteString(n.atom)
		return
	}
	sb.WriteByte('(')
	for i, c := range n.list {
		if i > 0 {
			sb.WriteByte(' ')
		}
		c.write(sb)
	}
	sb.WriteByte(')')
}

var absSym = map[string]string{
	"String": "Str", "str.len": "abs.len", "str.<": "abs.lt", "str.<=": "abs.le",
	"str.prefixof": "abs.prefixof", "str.suffixof": "abs.suffixof", "str.contains": "abs.contains",
	"str.at": "abs.at", "str.to_code": "abs.code", "str.from_code": "abs.ofcode", "str.from_int": "abs.ofint",
	"str.substr": "abs.substr", "str.to_int": "abs.toint",
}

type absCtx struct {
	lits  map[string]string
	order []string
	res   map[string]string
}

func (a *absCtx) lit(s string) string {
	if n, ok := a.lits[s]; ok {
		return n
	}
	n := fmt.Sprintf("abs.lit!%d", len(a.lits))
	a.lits[s] = n
	a.order = append(a.order, s)
	return n
}

func (a *absCtx) rewrite(n *sx) *sx {
	if !n.isL {
		if strings.HasPrefix(n.atom, "\"") {
			return &sx{atom: a.lit(n.atom)}
		}
		if r, ok := absSym[n.atom]; ok {
			return &sx{atom: r}
		}
		return n
	}
	if len(n.list) > 0 && !n.list[0].isL {
		switch n.list[0].atom {
		case "str.++":
			args := n.list[1:]
			cur := a.rewrite(args[len(args)-1])
			for i := len(args) - 2; i >= 0; i-- {
				cur = &sx{isL: true, list: []*sx{{atom: "abs.cat"}, a.rewrite(args[i]), cur}}
			}
			return cur
		case "str.contains", "str.prefixof", "str.suffixof":
			// both arguments literal: fold (keeps constant import paths etc. decidable)
			if len(n.list) == 3 && !n.list[1].isL && !n.list[2].isL && strings.HasPrefix(n.list[1].atom, "\"") && strings.HasPrefix(n.list[2].atom, "\"") {
				a1, a2 := smtLitValue(n.list[1].atom), smtLitValue(n.list[2].atom)
				var r bool
				switch n.list[0].atom {
				case "str.contains":
					r = strings.Contains(a1, a2)
				case "str.prefixof":
					r = strings.HasPrefix(a2, a1)
				default:
					r = strings.HasSuffix(a2, a1)
				}
				if r {
					return &sx{atom: "true"}
				}
				return &sx{atom: "false"}
			}
		case "str.in_re":
			var sb strings.Builder
			n.list[2].write(&sb)
			key := sb.String()
			name, ok := a.res[key]
			if !ok {
				name = fmt.Sprintf("abs.re!%d", len(a.res))
				a.res[key] = name
			}
			return &sx{isL: true, list: []*sx{{atom: name}, a.rewrite(n.list[1])}}
		}
	}
	out := &sx{isL: true}
	for _, c := range n.list {
		out.list = append(out.list, a.rewrite(c))
	}
	return out
}

func smtLitLen(lit string) int {
	// lit is an SMT-LIB string literal with "" and \u{..} escapes; one character per byte
	body := lit[1 : len(lit)-1]
	n := 0
	for i := 0; i < len(body); i++ {
		if body[i] == '"' && i+1 < len(body) && body[i+1] == '"' {
			i++
		} else if body[i] == '\\' && i+2 < len(body) && body[i+1] == 'u' && body[i+2] == '{' {
			j := strings.IndexByte(body[i:], '}')
			if j > 0 {
				i += j
			}
		}
		n++
	}
	return n
}

const absPreamble = `(declare-sort Str 0)
(declare-fun abs.len (Str) Int)
(declare-fun abs.cat (Str Str) Str)
(declare-fun abs.lt (Str Str) Bool)
(declare-fun abs.le (Str Str) Bool)
(declare-fun abs.prefixof (Str Str) Bool)
(declare-fun abs.suffixof (Str Str) Bool)
(declare-fun abs.contains (Str Str) Bool)
(declare-fun abs.at (Str Int) Str)
(declare-fun abs.code (Str) Int)
(declare-fun abs.ofcode (Int) Str)
(declare-fun abs.ofint (Int) Str)
(declare-fun abs.toint (Str) Int)
(declare-fun abs.substr (Str Int Int) Str)
(assert (forall ((a Str)) (! (<= 0 (abs.len a)) :pattern ((abs.len a)))))
(assert (forall ((a Str) (b Str)) (! (= (abs.len (abs.cat a b)) (+ (abs.len a) (abs.len b))) :pattern ((abs.cat a b)))))
(assert (forall ((a Str) (b Str)) (! (and (abs.prefixof a (abs.cat a b)) (abs.suffixof b (abs.cat a b))) :pattern ((abs.cat a b)))))
(assert (forall ((a Str) (b Str)) (! (=> (abs.prefixof a b) (<= (abs.len a) (abs.len b))) :pattern ((abs.prefixof a b)))))
(assert (forall ((a Str) (b Str)) (! (=> (abs.suffixof a b) (<= (abs.len a) (abs.len b))) :pattern ((abs.suffixof a b)))))
(assert (forall ((a Str) (b Str) (c Str)) (! (= (abs.cat (abs.cat a b) c) (abs.cat a (abs.cat b c))) :pattern ((abs.cat (abs.cat a b) c)))))
(assert (forall ((a Str) (b Str) (c Str)) (! (=> (= (abs.cat a b) (abs.cat a c)) (= b c)) :pattern ((abs.cat a b) (abs.cat a c)))))
(assert (forall ((a Str) (b Str)) (! (and (=> (abs.lt a b) (abs.le a b)) (=> (and (abs.le a b) (abs.le b a)) (= a b)) (or (abs.le a b) (abs.le b a)) (= (abs.lt a b) (not (abs.le b a)))) :pattern ((abs.le a b)))))
(assert (forall ((a Str) (b Str)) (! (= (abs.lt a b) (not (abs.le b a))) :pattern ((abs.lt a b)))))
(assert (forall ((a Str) (i Int)) (! (and (<= 0 (abs.code (abs.at a i))) (<= (abs.code (abs.at a i)) 255)) :pattern ((abs.at a i)))))
`

// abstractStrings rewrites a complete SMT-LIB script.
func abstractStrings(script string) string {
	toks := tokenizeSMT(script)
	a := &absCtx{lits: map[string]string{}, res: map[string]string{}}
	var cmds []*sx
	p := 0
	for p < len(toks) {
		cmds = append(cmds, a.rewrite(parseSX(toks, &p)))
	}
	var sb strings.Builder
	emitted := false
	emitAbs := func() {
		sb.WriteString(absPreamble)
		for i, l := range a.order {
			fmt.Fprintf(&sb, "(declare-const abs.lit!%d Str)\n(assert (= (abs.len abs.lit!%d) %d))\n", i, i, smtLitLen(l))
			if smtLitLen(l) == 0 {
				fmt.Fprintf(&sb, "(assert (forall ((a Str)) (! (and (= (abs.cat a abs.lit!%d) a) (= (abs.cat abs.lit!%d a) a)) :pattern ((abs.cat a abs.lit!%d)) :pattern ((abs.cat abs.lit!%d a)))))\n", i, i, i, i)
				fmt.Fprintf(&sb, "(assert (forall ((a Str)) (! (=> (= (abs.len a) 0) (= a abs.lit!%d)) :pattern ((abs.len a)))))\n", i)
			}
		}
		if len(a.order) > 1 {
			sb.WriteString("(assert (distinct")
			for i := range a.order {
				fmt.Fprintf(&sb, " abs.lit!%d", i)
			}
			sb.WriteString("))\n")
		}
		for _, name := range a.res {
			fmt.Fprintf(&sb, "(declare-fun %s (Str) Bool)\n", name)
		}
	}
	for _, c := range cmds {
		// the abstract declarations go right after set-logic
		c.write(&sb)
		sb.WriteByte('\n')
		if !emitted && c.isL && len(c.list) > 0 && c.list[0].atom == "set-logic" {
			emitAbs()
			emitted = true
		}
	}
	return sb.String()
}

// smtLitValue decodes an SMT-LIB string literal (one character per byte).
func smtLitValue(lit string) string {
	body := lit[1 : len(lit)-1]
	var out []byte
	for i := 0; i < len(body); i++ {
		if body[i] == '"' && i+1 < len(body) && body[i+1] == '"' {
			out = append(out, '"')
			i++
			continue
		}
		if body[i] == '\\' && i+2 < len(body) && body[i+1] == 'u' && body[i+2] == '{' {
			j := strings.IndexByte(body[i:], '}')
			if j > 0 {
				var v int
				fmt.Sscanf(body[i+3:i+j], "%x", &v)
				out = append(out, byte(v))
				i += j
				continue
			}
		}
		out = append(out, body[i])
	}
	return string(out)
}
