package main

// Contract expression language: Go expressions extended with
//   forall x T :: e     exists x T :: e     a ==> b     a <==> b     c ? a : b
//   old(e)   result / result0..n   $iter   typeis(v, T)   len/cap
// Parsed by a small Pratt parser into Expr; typed and lowered to SMT in ceval.go.

import (
	"fmt"
	"strings"
	"unicode"
)

type Expr struct {
	Op   string  // "id","int","str","chr","bool","nil","un","bin","sel","idx","slice","call","forall","exists","ite","type"
	S    string  // identifier / operator / literal text / raw type text
	Args []*Expr // operands
	Vars []BVar  // bound variables for quantifiers
	Trig []*Expr // explicit trigger terms of a quantifier
	Pos  int
}

type BVar struct {
	Name string
	Type string // raw Go type text
}

func (e *Expr) String() string {
	switch e.Op {
	case "id", "int", "bool", "nil", "type":
		return e.S
	case "str":
		return fmt.Sprintf("%q", e.S)
	case "chr":
		return fmt.Sprintf("%q", []rune(e.S)[0])
	case "un":
		return e.S + e.Args[0].String()
	case "bin":
		return "(" + e.Args[0].String() + " " + e.S + " " + e.Args[1].String() + ")"
	case "sel":
		return e.Args[0].String() + "." + e.S
	case "idx":
		return e.Args[0].String() + "[" + e.Args[1].String() + "]"
	case "slice":
		lo, hi := "", ""
		if e.Args[1] != nil {
			lo = e.Args[1].String()
		}
		if e.Args[2] != nil {
			hi = e.Args[2].String()
		}
		return e.Args[0].String() + "[" + lo + ":" + hi + "]"
	case "call":
		var a []string
		for _, x := range e.Args[1:] {
			a = append(a, x.String())
		}
		return e.Args[0].String() + "(" + strings.Join(a, ", ") + ")"
	case "forall", "exists":
		var v []string
		for _, b := range e.Vars {
			v = append(v, b.Name+" "+b.Type)
		}
		return "(" + e.Op + " " + strings.Join(v, ", ") + " :: " + e.Args[0].String() + ")"
	case "ite":
		return "(" + e.Args[0].String() + " ? " + e.Args[1].String() + " : " + e.Args[2].String() + ")"
	}
	return "?" + e.Op
}

type tok struct {
	k   string // "id","int","str","chr","op","eof"
	s   string
	pos int
}

func lexExpr(src string) ([]tok, error) {
	var out []tok
	rs := []rune(src)
	i := 0
	for i < len(rs) {
		c := rs[i]
		switch {
		case unicode.IsSpace(c):
			i++
		case unicode.IsLetter(c) || c == '_' || c == '$':
			j := i + 1
			for j < len(rs) && (unicode.IsLetter(rs[j]) || unicode.IsDigit(rs[j]) || rs[j] == '_' || rs[j] == '$') {
				j++
			}
			out = append(out, tok{"id", string(rs[i:j]), i})
			i = j
		case unicode.IsDigit(c):
			j := i + 1
			for j < len(rs) && (unicode.IsDigit(rs[j]) || rs[j] == 'x' || (rs[j] >= 'a' && rs[j] <= 'f') || (rs[j] >= 'A' && rs[j] <= 'F') || rs[j] == '_') {
				j++
			}
			out = append(out, tok{"int", strings.ReplaceAll(string(rs[i:j]), "_", ""), i})
			i = j
		case c == '"':
			j := i + 1
			var sb strings.Builder
			for j < len(rs) && rs[j] != '"' {
				if rs[j] == '\\' && j+1 < len(rs) {
					j++
					switch rs[j] {
					case 'n':
						sb.WriteRune('\n')
					case 't':
						sb.WriteRune('\t')
					case 'r':
						sb.WriteRune('\r')
					default:
						sb.WriteRune(rs[j])
					}
				} else {
					sb.WriteRune(rs[j])
				}
				j++
			}
			if j >= len(rs) {
				return nil, fmt.Errorf("unterminated string at %d", i)
			}
			out = append(out, tok{"str", sb.String(), i})
			i = j + 1
		case c == '\'':
			j := i + 1
			var r rune
			if j < len(rs) && rs[j] == '\\' && j+1 < len(rs) {
				switch rs[j+1] {
				case 'n':
					r = '\n'
				case 't':
					r = '\t'
				case 'r':
					r = '\r'
				case '0':
					r = 0
				default:
					r = rs[j+1]
				}
				j += 2
			} else if j < len(rs) {
				r = rs[j]
				j++
			}
			if j >= len(rs) || rs[j] != '\'' {
				return nil, fmt.Errorf("bad char literal at %d", i)
			}
			out = append(out, tok{"chr", string(r), i})
			i = j + 1
		default:
			ops := []string{"<==>", "==>", "::", "==", "!=", "<=", ">=", "&&", "||", "<<", ">>", "&^"}
			matched := false
			for _, o := range ops {
				if strings.HasPrefix(string(rs[i:min(i+len(o), len(rs))]), o) {
					out = append(out, tok{"op", o, i})
					i += len(o)
					matched = true
					break
				}
			}
			if !matched {
				out = append(out, tok{"op", string(c), i})
				i++
			}
		}
	}
	out = append(out, tok{"eof", "", len(rs)})
	return out, nil
}

type eparser struct {
	toks []tok
	p    int
	src  string
}

func ParseExpr(src string) (e *Expr, err error) {
	toks, err := lexExpr(src)
	if err != nil {
		return nil, err
	}
	ps := &eparser{toks: toks, src: src}
	defer func() {
		if r := recover(); r != nil {
			if pe, ok := r.(parseErr); ok {
				err = fmt.Errorf("%s in %q", string(pe), src)
				return
			}
			panic(r)
		}
	}()
	e = ps.expr(0)
	if ps.peek().k != "eof" {
		ps.fail("unexpected %q", ps.peek().s)
	}
	return e, nil
}

type parseErr string

func (ps *eparser) fail(f string, a ...any) {
	panic(parseErr(fmt.Sprintf("at %d: ", ps.peek().pos) + fmt.Sprintf(f, a...)))
}
func (ps *eparser) peek() tok { return ps.toks[ps.p] }
func (ps *eparser) next() tok { t := ps.toks[ps.p]; ps.p++; return t }
func (ps *eparser) isOp(s string) bool {
	t := ps.peek()
	return t.k == "op" && t.s == s
}
func (ps *eparser) expectOp(s string) {
	if !ps.isOp(s) {
		ps.fail("expected %q got %q", s, ps.peek().s)
	}
	ps.p++
}

var binPrec = map[string]int{
	"<==>": 1, "==>": 2, "||": 4, "&&": 5,
	"==": 6, "!=": 6, "<": 6, "<=": 6, ">": 6, ">=": 6,
	"+": 7, "-": 7, "|": 7, "^": 7,
	"*": 8, "/": 8, "%": 8, "&": 8, "<<": 8, ">>": 8, "&^": 8,
}

// raw type text up to one of the stop operators at depth 0
func (ps *eparser) rawType(stops ...string) string {
	start := ps.peek().pos
	depth := 0
	for {
		t := ps.peek()
		if t.k == "eof" {
			break
		}
		if t.k == "op" {
			if depth == 0 {
				for _, s := range stops {
					if t.s == s {
						return strings.TrimSpace(string([]rune(ps.src)[start:t.pos]))
					}
				}
			}
			if t.s == "(" || t.s == "[" || t.s == "{" {
				depth++
			}
			if t.s == ")" || t.s == "]" || t.s == "}" {
				if depth == 0 {
					return strings.TrimSpace(string([]rune(ps.src)[start:t.pos]))
				}
				depth--
			}
		}
		ps.p++
	}
	return strings.TrimSpace(string([]rune(ps.src)[start:]))
}

func (ps *eparser) expr(minPrec int) *Expr {
	t := ps.peek()
	if t.k == "id" && (t.s == "forall" || t.s == "exists") {
		ps.p++
		q := &Expr{Op: t.s, Pos: t.pos}
		for {
			n := ps.next()
			if n.k != "id" {
				ps.fail("expected bound variable name")
			}
			ty := ps.rawType(",", "::", "{")
			q.Vars = append(q.Vars, BVar{n.s, ty})
			if ps.isOp(",") {
				ps.p++
				continue
			}
			break
		}
		if ps.isOp("{") {
			ps.p++
			for !ps.isOp("}") {
				q.Trig = append(q.Trig, ps.expr(0))
				if ps.isOp(",") {
					ps.p++
				}
			}
			ps.expectOp("}")
		}
		ps.expectOp("::")
		q.Args = []*Expr{ps.expr(0)}
		return q
	}
	lhs := ps.unary()
	for {
		t := ps.peek()
		if t.k != "op" {
			break
		}
		if t.s == "?" && minPrec <= 3 {
			ps.p++
			a := ps.expr(4)
			ps.expectOp(":")
			b := ps.expr(3)
			lhs = &Expr{Op: "ite", Args: []*Expr{lhs, a, b}, Pos: t.pos}
			continue
		}
		prec, ok := binPrec[t.s]
		if !ok || prec < minPrec {
			break
		}
		ps.p++
		var rhs *Expr
		if t.s == "==>" {
			rhs = ps.expr(prec) // right assoc
		} else {
			rhs = ps.expr(prec + 1)
		}
		lhs = &Expr{Op: "bin", S: t.s, Args: []*Expr{lhs, rhs}, Pos: t.pos}
	}
	return lhs
}

func (ps *eparser) unary() *Expr {
	t := ps.peek()
	if t.k == "op" && (t.s == "!" || t.s == "-" || t.s == "*") {
		ps.p++
		return &Expr{Op: "un", S: t.s, Args: []*Expr{ps.unary()}, Pos: t.pos}
	}
	return ps.postfix(ps.primary())
}

func (ps *eparser) postfix(e *Expr) *Expr {
	for {
		t := ps.peek()
		if t.k != "op" {
			return e
		}
		switch t.s {
		case ".":
			ps.p++
			n := ps.next()
			if n.k != "id" {
				ps.fail("expected field name")
			}
			e = &Expr{Op: "sel", S: n.s, Args: []*Expr{e}, Pos: t.pos}
		case "[":
			ps.p++
			var lo, hi *Expr
			if !ps.isOp(":") {
				lo = ps.expr(0)
			}
			if ps.isOp(":") {
				ps.p++
				if !ps.isOp("]") {
					hi = ps.expr(0)
				}
				ps.expectOp("]")
				e = &Expr{Op: "slice", Args: []*Expr{e, lo, hi}, Pos: t.pos}
			} else {
				ps.expectOp("]")
				e = &Expr{Op: "idx", Args: []*Expr{e, lo}, Pos: t.pos}
			}
		case "(":
			ps.p++
			c := &Expr{Op: "call", Args: []*Expr{e}, Pos: t.pos}
			// typeis(v, T) / cast(T, v): type arguments captured raw
			if e.Op == "id" && e.S == "typeis" {
				c.Args = append(c.Args, ps.expr(0))
				ps.expectOp(",")
				c.Args = append(c.Args, &Expr{Op: "type", S: ps.rawType(")")})
				ps.expectOp(")")
				e = c
				continue
			}
			if e.Op == "id" && (e.S == "as" || e.S == "zero") {
				c.Args = append(c.Args, &Expr{Op: "type", S: ps.rawType(",", ")")})
				if ps.isOp(",") {
					ps.p++
					c.Args = append(c.Args, ps.expr(0))
				}
				ps.expectOp(")")
				e = c
				continue
			}
			for !ps.isOp(")") {
				c.Args = append(c.Args, ps.expr(0))
				if ps.isOp(",") {
					ps.p++
				} else {
					break
				}
			}
			ps.expectOp(")")
			e = c
		default:
			return e
		}
	}
}

func (ps *eparser) primary() *Expr {
	t := ps.next()
	switch t.k {
	case "id":
		switch t.s {
		case "true", "false":
			return &Expr{Op: "bool", S: t.s, Pos: t.pos}
		case "nil":
			return &Expr{Op: "nil", S: "nil", Pos: t.pos}
		}
		return &Expr{Op: "id", S: t.s, Pos: t.pos}
	case "int":
		return &Expr{Op: "int", S: t.s, Pos: t.pos}
	case "str":
		return &Expr{Op: "str", S: t.s, Pos: t.pos}
	case "chr":
		return &Expr{Op: "chr", S: t.s, Pos: t.pos}
	case "op":
		if t.s == "(" {
			e := ps.expr(0)
			ps.expectOp(")")
			return e
		}
	}
	ps.p--
	ps.fail("unexpected %q", t.s)
	return nil
}
