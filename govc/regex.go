package main

import (
	"fmt"
	"regexp/syntax"
	"strings"
)

// regexToSMT translates a Go (RE2) regular expression to an SMT-LIB RegLan term with the meaning of
// regexp.MatchString (unanchored unless ^/$ are present). One SMT character per byte; only ASCII
// classes are supported.
func regexToSMT(pat string) (string, error) {
	re, err := syntax.Parse(pat, syntax.Perl)
	if err != nil {
		return "", err
	}
	re = re.Simplify()
	begin, end := false, false
	subs := []*syntax.Regexp{re}
	if re.Op == syntax.OpConcat {
		subs = re.Sub
	}
	if len(subs) > 0 && subs[0].Op == syntax.OpBeginText {
		begin = true
		subs = subs[1:]
	}
	if len(subs) > 0 && subs[len(subs)-1].Op == syntax.OpEndText {
		end = true
		subs = subs[:len(subs)-1]
	}
	var parts []string
	if !begin {
		parts = append(parts, "re.all")
	}
	for _, s := range subs {
		t, err := reNode(s)
		if err != nil {
			return "", err
		}
		parts = append(parts, t)
	}
	if !end {
		parts = append(parts, "re.all")
	}
	switch len(parts) {
	case 0:
		return `(str.to_re "")`, nil
	case 1:
		return parts[0], nil
	}
	return "(re.++ " + strings.Join(parts, " ") + ")", nil
}

func reNode(r *syntax.Regexp) (string, error) {
	switch r.Op {
	case syntax.OpEmptyMatch:
		return `(str.to_re "")`, nil
	case syntax.OpLiteral:
		return fmt.Sprintf("(str.to_re %s)", smtStr(string(r.Rune))), nil
	case syntax.OpCharClass:
		var alts []string
		for i := 0; i+1 < len(r.Rune); i += 2 {
			lo, hi := r.Rune[i], r.Rune[i+1]
			if hi > 255 {
				hi = 255
			}
			if lo > hi {
				continue
			}
			alts = append(alts, fmt.Sprintf("(re.range %s %s)", smtStr(string([]byte{byte(lo)})), smtStr(string([]byte{byte(hi)}))))
		}
		if len(alts) == 0 {
			return "re.none", nil
		}
		if len(alts) == 1 {
			return alts[0], nil
		}
		return "(re.union " + strings.Join(alts, " ") + ")", nil
	case syntax.OpAnyChar, syntax.OpAnyCharNotNL:
		return "re.allchar", nil
	case syntax.OpCapture:
		return reNode(r.Sub[0])
	case syntax.OpStar, syntax.OpPlus, syntax.OpQuest:
		t, err := reNode(r.Sub[0])
		if err != nil {
			return "", err
		}
		op := map[syntax.Op]string{syntax.OpStar: "re.*", syntax.OpPlus: "re.+", syntax.OpQuest: "re.opt"}[r.Op]
		return fmt.Sprintf("(%s %s)", op, t), nil
	case syntax.OpRepeat:
		t, err := reNode(r.Sub[0])
		if err != nil {
			return "", err
		}
		if r.Max < 0 {
			return fmt.Sprintf("(re.++ ((_ re.loop %d %d) %s) (re.* %s))", r.Min, r.Min, t, t), nil
		}
		return fmt.Sprintf("((_ re.loop %d %d) %s)", r.Min, r.Max, t), nil
	case syntax.OpConcat, syntax.OpAlternate:
		var ps []string
		for _, s := range r.Sub {
			t, err := reNode(s)
			if err != nil {
				return "", err
			}
			ps = append(ps, t)
		}
		op := "re.++"
		if r.Op == syntax.OpAlternate {
			op = "re.union"
		}
		if len(ps) == 1 {
			return ps[0], nil
		}
		return "(" + op + " " + strings.Join(ps, " ") + ")", nil
	}
	return "", fmt.Errorf("unsupported regex construct %s", r.Op)
}
