package main

import (
	"flag"
	"fmt"
	"os"
	"strings"
)

func main() {
	if len(os.Args) < 2 {
		fmt.Fprintln(os.Stderr, "usage: govc <fn|check|...>")
		os.Exit(2)
	}
	switch os.Args[1] {
	case "fn":
		cmdFn(os.Args[2:])
	case "check":
		cmdCheck(os.Args[2:])
	case "mods":
		e, err := LoadEngine("/repo", []string{os.Args[2]}, "/verif/spec")
		if err != nil {
			fmt.Println(err)
			os.Exit(2)
		}
		parts := strings.SplitN(os.Args[3], "::", 2)
		fn := e.FindFunc(parts[0], parts[1])
		m := e.modOf(fn)
		for _, k := range sortedKeys(m) {
			fmt.Println(k, m[k])
		}
	case "immut":
		e, err := LoadEngine("/repo", []string{os.Args[2]}, "/verif/spec")
		if err != nil {
			fmt.Println(err)
			os.Exit(2)
		}
		for _, k := range sortedKeys(e.immutable) {
			fmt.Println(k)
		}
	case "abs":
		b, _ := os.ReadFile(os.Args[2])
		fmt.Print(abstractStrings(string(b)))
	default:
		fmt.Fprintln(os.Stderr, "unknown command")
		os.Exit(2)
	}
}

// govc fn -pkg ./lib/id62 -f pkgpath::rel [-dump]
func cmdFn(args []string) {
	fs := flag.NewFlagSet("fn", flag.ExitOnError)
	repo := fs.String("repo", "/repo", "")
	pkgs := fs.String("pkg", "", "comma separated load patterns")
	fname := fs.String("f", "", "pkgpath::func (or pkgpath::* for all)")
	dump := fs.Bool("dump", false, "print the SMT script")
	spec := fs.String("spec", "/verif/spec", "")
	nilc := fs.Bool("nil", false, "nil checks")
	parsed := fs.Bool("parsed", false, "messages read are protodesc-normalised descriptor options")
	tmo := fs.Int("t", 10, "race timeout s")
	fs.Parse(args)
	e, err := LoadEngine(*repo, strings.Split(*pkgs, ","), *spec)
	if err != nil {
		fmt.Fprintln(os.Stderr, err)
		os.Exit(2)
	}
	e.nilcheckAll = *nilc
	e.parsedOptions = *parsed
	parts := strings.SplitN(*fname, "::", 2)
	var fns []string
	if parts[1] == "*" {
		for _, f := range e.AllFuncs(parts[0]) {
			_, rel := e.fnKey(f)
			fns = append(fns, rel)
		}
	} else {
		fns = []string{parts[1]}
	}
	cfg := SolverCfg{QuickTimeoutMs: 3000, RaceTimeoutS: *tmo, OutDir: "/tmp/govc-smt"}
	for _, rel := range fns {
		fn := e.FindFunc(parts[0], rel)
		if fn == nil {
			fmt.Println("not found:", rel)
			continue
		}
		if *dump {
			s := &Sess{eng: e, fn: fn, ct: e.contractFor(fn)}
			s.run()
			fmt.Println(s.incrementalScript(5000))
			fmt.Println("; unsupported:", s.unsupported)
			continue
		}
		r := e.VerifyFunc(fn, cfg)
		ok := 0
		for _, ob := range r.Obligations {
			if ob.Status == "unsat" {
				ok++
			}
		}
		fmt.Printf("%s: %d/%d discharged, rounds=%d, %.1fs contract=%v\n", r.Func, ok, len(r.Obligations), r.Rounds, r.WallS, r.HasContract)
		for _, ob := range r.Obligations {
			if os.Getenv("GOVC_V") != "" && ob.Status == "unsat" {
				fmt.Printf("   ok   %-40s [%s %.2fs]\n", ob.Name, ob.Solver, ob.TimeS)
			}
			if ob.Status != "unsat" {
				fmt.Printf("   FAIL %-40s %s [%s %s] %s\n", ob.Name, ob.Pos, ob.Status, ob.Solver, ob.Detail)
			}
		}
		for _, u := range r.Unsupported {
			fmt.Println("   unsupported:", u)
		}
		if len(r.Havoc) > 0 {
			fmt.Println("   havoc calls:", strings.Join(r.Havoc, ", "))
		}
		if len(r.Dropped) > 0 {
			fmt.Println("   dropped candidates:", strings.Join(r.Dropped, "; "))
		}
	}
}

