package main

// Protobuf extension model (C04, C07, C12, C18): every generated extension variable E_X has a
// declared extended type and value type, extracted mechanically from the generated code on every
// run. proto.SetExtension(m, E_X, v) obliges v (and m) to have those dynamic types - protobuf-go
// panics otherwise - and records v in a ghost store; proto.GetExtension reads it back with the
// declared type (a typed nil when unset).

import (
	"fmt"
	"go/ast"
	"go/token"
	"go/types"
	"strings"

	"golang.org/x/tools/go/ssa"
)

type extInfo struct {
	Name     string
	Extended types.Type
	Value    types.Type
}

func (e *Engine) loadExtensions() {
	e.exts = map[*types.Var]*extInfo{}
	for _, p := range e.pkgs {
		if p.TypesInfo == nil {
			continue
		}
		tables := map[string][]*ast.CompositeLit{}
		for _, f := range p.Syntax {
			for _, d := range f.Decls {
				gd, ok := d.(*ast.GenDecl)
				if !ok || gd.Tok != token.VAR {
					continue
				}
				for _, sp := range gd.Specs {
					vs := sp.(*ast.ValueSpec)
					for i, n := range vs.Names {
						if i >= len(vs.Values) {
							continue
						}
						if cl, ok := vs.Values[i].(*ast.CompositeLit); ok && strings.HasSuffix(n.Name, "_extTypes") {
							for _, el := range cl.Elts {
								if ecl, ok := el.(*ast.CompositeLit); ok {
									tables[n.Name] = append(tables[n.Name], ecl)
								}
							}
						}
					}
				}
			}
		}
		if len(tables) == 0 {
			continue
		}
		for _, f := range p.Syntax {
			for _, d := range f.Decls {
				gd, ok := d.(*ast.GenDecl)
				if !ok || gd.Tok != token.VAR {
					continue
				}
				for _, sp := range gd.Specs {
					vs := sp.(*ast.ValueSpec)
					for i, n := range vs.Names {
						if i >= len(vs.Values) {
							continue
						}
						ue, ok := vs.Values[i].(*ast.UnaryExpr)
						if !ok || ue.Op != token.AND {
							continue
						}
						ix, ok := ue.X.(*ast.IndexExpr)
						if !ok {
							continue
						}
						tn, ok := ix.X.(*ast.Ident)
						if !ok {
							continue
						}
						lit, ok := ix.Index.(*ast.BasicLit)
						if !ok {
							continue
						}
						var k int
						fmt.Sscan(lit.Value, &k)
						tab := tables[tn.Name]
						if k >= len(tab) {
							continue
						}
						info := &extInfo{Name: p.PkgPath + "." + n.Name}
						for _, el := range tab[k].Elts {
							kv, ok := el.(*ast.KeyValueExpr)
							if !ok {
								continue
							}
							key, _ := kv.Key.(*ast.Ident)
							if key == nil {
								continue
							}
							tv, ok := p.TypesInfo.Types[kv.Value]
							if !ok {
								continue
							}
							switch key.Name {
							case "ExtendedType":
								info.Extended = tv.Type
							case "ExtensionType":
								info.Value = tv.Type
							}
						}
						if obj, ok := p.TypesInfo.Defs[n].(*types.Var); ok && info.Value != nil {
							e.exts[obj] = info
						}
					}
				}
			}
		}
	}
}

// extOfArg resolves the ExtensionType argument of proto.Set/GetExtension to the generated variable.
func (e *Engine) extOfArg(v ssa.Value) *extInfo {
	for {
		switch x := v.(type) {
		case *ssa.MakeInterface:
			v = x.X
			continue
		case *ssa.ChangeInterface:
			v = x.X
			continue
		case *ssa.UnOp:
			if x.Op == token.MUL {
				if g, ok := x.X.(*ssa.Global); ok {
					if obj, ok := g.Object().(*types.Var); ok {
						return e.exts[obj]
					}
				}
			}
		}
		return nil
	}
}

func extRegion(info *extInfo) string {
	k := "G:ext:" + info.Name
	regInfo.LoadOrStore(k, regionInfo{kind: 'C', typ: info.Value})
	return k
}

// extIntrinsic models proto.SetExtension / GetExtension / HasExtension / ClearExtension.
func (s *Sess) extIntrinsic(in ssa.CallInstruction, name string, args []Val, st *State) ([]Val, bool) {
	const pfx = "google.golang.org/protobuf/proto."
	if !strings.HasPrefix(name, pfx) {
		return nil, false
	}
	op := strings.TrimPrefix(name, pfx)
	if op != "SetExtension" && op != "GetExtension" && op != "HasExtension" && op != "ClearExtension" {
		return nil, false
	}
	com := in.Common()
	info := s.eng.extOfArg(com.Args[1])
	if info == nil {
		s.unsupp("%s: %s with an extension type that is not a generated E_* variable", s.posOf(in.Pos()), op)
		return nil, false
	}
	s.trustedUsed["proto."+op+" (extension store model; value types extracted from generated code)"] = true
	key := extRegion(info)
	srt := s.cellSort(info.Value)
	G := s.region(st, key, srt)
	m := fmt.Sprintf("(i.val %s)", args[0].t)
	ord := s.callOrd(in)
	switch op {
	case "SetExtension":
		v := args[2]
		s.oblige(st, "ext", fmt.Sprintf("ext.value@%d", s.extOrd(in)), fmt.Sprintf("(= (i.tag %s) %d)", v.t, s.tc.tagOf(info.Value)), in.Pos(),
			fmt.Sprintf("proto.SetExtension(%s): value must have the declared type %s", shortName(info.Name), typeKey(info.Value)))
		if info.Extended != nil {
			s.oblige(st, "ext", fmt.Sprintf("ext.target@%d", s.extOrd(in)), fmt.Sprintf("(= (i.tag %s) %d)", args[0].t, s.tc.tagOf(info.Extended)), in.Pos(),
				fmt.Sprintf("proto.SetExtension(%s): message must be %s", shortName(info.Name), typeKey(info.Extended)))
		}
		// proto.SetExtension panics on a nil message (it cannot be mutated)
		s.oblige(st, "ext", fmt.Sprintf("ext.msg@%d", s.extOrd(in)), fmt.Sprintf("(distinct %s 0)", m), in.Pos(),
			fmt.Sprintf("proto.SetExtension(%s): the message must not be nil", shortName(info.Name)))
		s.setRegion(st, key, srt, fmt.Sprintf("(store %s %s (i.val %s))", G, m, v.t))
		return nil, true
	case "ClearExtension":
		s.setRegion(st, key, srt, fmt.Sprintf("(store %s %s 0)", G, m))
		return nil, true
	case "HasExtension":
		return []Val{{t: fmt.Sprintf("(distinct (select %s %s) 0)", G, m), typ: tBool}}, true
	default: // GetExtension
		r := s.define("ext", "Iface", fmt.Sprintf("(mk-iface %d (select %s %s))", s.tc.tagOf(info.Value), G, m))
		s.assumeAt(st, fmt.Sprintf("(< (i.val %s) %s)", r, st.top))
		_ = ord
		return []Val{{t: r, typ: com.Signature().Results().At(0).Type()}}, true
	}
}

func (s *Sess) extOrd(in ssa.CallInstruction) int {
	n := 0
	for _, b := range s.fn.Blocks {
		for _, i := range b.Instrs {
			ci, ok := i.(ssa.CallInstruction)
			if !ok {
				continue
			}
			if ci == in {
				return n
			}
			if s.eng.calleeName(ci.Common()) == "google.golang.org/protobuf/proto.SetExtension" {
				n++
			}
		}
	}
	return n
}
