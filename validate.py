#!/usr/bin/env python3
# validates MANIFEST.json and evidence/*.json against the task schemas; prints per-property obligation counts
import json,glob,sys
try:
    import jsonschema
except ImportError:
    sys.path.insert(0,'/opt/veriftools/pyvenv/lib/python3.11/site-packages'); import jsonschema
ms=json.load(open('/root/.vp/MANIFEST.schema.json')); es=json.load(open('/root/.vp/EVIDENCE.schema.json'))
m=json.load(open('/verif/MANIFEST.json')); jsonschema.validate(m,ms); print('MANIFEST ok,',len(m['checks']),'checks,',len(m['not_applicable']),'n/a')
bad=0
for f in sorted(glob.glob('/verif/evidence/C*.json')):
    d=json.load(open(f))
    try: jsonschema.validate(d,es)
    except Exception as e: print(f,'INVALID',str(e)[:200]); bad=1; continue
    c=d['coverage']; ok=c['obligations']==c['discharged']
    print(f[-8:-5],c['obligations'],c['discharged'],'ok' if ok else 'MISMATCH',d.get('tier',''),len(c.get('known_findings_seen') or []))
    bad|= (not ok)
sys.exit(bad)
