#!/usr/bin/env python3
# Regenerates MANIFEST.json from props/*.json and claims.json (the per-property level text).
import json, os, subprocess
here = os.path.dirname(os.path.abspath(__file__))
claims = json.load(open(os.path.join(here, 'claims.json')))
props = [json.loads(l) for l in open(os.path.join(here, 'properties.jsonl'))]
try:
    commits = subprocess.run(['git', '-C', '/repo', 'log', '--format=%H %s'], capture_output=True, text=True).stdout.strip().split('\n')
    hooks = [c.split()[0] for c in commits if c.split(' ', 1)[1].startswith('verif:')]
except Exception:
    hooks = []
checks, na = [], []
for p in props:
    pid = p['id']
    c = claims.get(pid)
    if c and c.get('claimed') and os.path.exists(os.path.join(here, 'props', pid + '.json')):
        checks.append({
            'property_id': pid,
            'quick_cmd': './check %s quick' % pid,
            'thorough_cmd': './check %s thorough' % pid,
            'evidence_file': 'evidence/%s.json' % pid,
            'replay_cmd_template': './check %s quick  # replay file {path} names the failed obligation and carries the solver output' % pid,
            'engine': 'govc',
            'level_claimed': {'category': 'proof', 'text': c['text'], 'design_ref': c.get('design_ref', 'DESIGN.md §5 ' + pid)},
            'level_note': c['note'],
            'technique': c.get('technique', 'contract-based deductive verification: weakest-precondition VCs generated from go/ssa of the real functions, contracts in //go:build verif files, discharged by z3/cvc5'),
        })
    else:
        na.append({'property_id': pid, 'reason': (c or {}).get('na_reason', 'no check built yet in this session; see DESIGN.md')})
m = {
    'version': 1,
    'setup_cmd': 'sh ./setup.sh',
    'hooks': {
        'guard': 'verif',
        'enable': 'go build -tags=verif ./... (contract files zz_verif_contracts*.go are //go:build verif; govc loads /repo with -tags=verif)',
        'baseline_off_cmd': json.load(open('/root/.vp/BASELINE.json'))['cmd'] if os.path.exists('/root/.vp/BASELINE.json') else 'cd /repo && go test -mod=mod -json -vet=off -count=1 -timeout 25m ./...',
        'source_commits': hooks,
        'add_only': True,
    },
    'engines': [{'name': 'govc', 'path': 'govc/', 'serves_properties': [c['property_id'] for c in checks],
                 'kind_free_text': 'self-written deductive verifier for Go: go/ssa -> guarded SMT-LIB verification conditions (per function, modular over callee contracts, loops cut at invariants), z3 5.1.0 / z3 4.8.12 / cvc5 1.0.3 portfolio'}],
    'checks': checks,
    'not_applicable': na,
    'notes': 'All checks: ./check <id> [quick|thorough]; known findings in known_findings.txt; design in DESIGN.md.',
}
json.dump(m, open(os.path.join(here, 'MANIFEST.json'), 'w'), indent=1)
print('checks:', [c['property_id'] for c in checks], 'n/a:', len(na))
