# sourced by every command: offline Go toolchain that builds /repo (go1.24.1)
export PATH=/root/go/pkg/mod/golang.org/toolchain@v0.0.1-go1.24.1.linux-amd64/bin:$PATH
export GOTOOLCHAIN=local GOFLAGS=-mod=mod GOPROXY=off GONOSUMDB=* GONOSUMCHECK=1 GOFLAGS=-mod=mod
export GOCACHE=${GOCACHE:-/root/.cache/go-build}
