#!/bin/bash
# runs every claimed property's quick (or thorough) check and prints one summary line each
cd /verif && . ./env.sh >/dev/null 2>&1
tier=${1:-quick}
rc=0
for p in $(ls props | sed 's/.json//'); do
  out=$(./check $p $tier 2>&1); r=$?
  echo "$out" | grep -E "^(VIOLATION|KNOWN-FINDING)" | cut -c1-200
  echo "$out" | tail -1 | cut -c1-200
  [ $r -ne 0 ] && rc=1
done
exit $rc
