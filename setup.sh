#!/bin/sh
# Build the verifier from files on disk only (offline).
set -e
cd "$(dirname "$0")"
. ./env.sh
mkdir -p bin evidence replays
(cd govc && go build -o ../bin/govc .)
echo "govc built: $(ls -la bin/govc | awk '{print $5}') bytes"
