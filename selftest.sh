#!/bin/sh
# usage: selftest.sh <property id>
# Must-fail corpus of the thorough tier: every seeded change kept under seeded/ for this property is
# applied to a scratch copy of /repo's working tree (never to /repo) and the quick check must report
# a violation there. Prints one SELFTEST line per seed; a miss is a weakness of the machinery, not a
# violation of the property on the current tree, so it does not change the check's exit status.
cd "$(dirname "$0")"
. ./env.sh >/dev/null 2>&1
id="$1"
V="$(pwd)"
for meta in seeded/*/meta.json; do
  [ -f "$meta" ] || continue
  prop=$(python3 -c "import json,sys; print(json.load(open('$meta'))['property'])")
  [ "$prop" = "$id" ] || continue
  seed=$(dirname "$meta")
  S=/var/tmp/govc-selftest-$$-$(basename "$seed")
  rm -rf "$S"; mkdir -p "$S/repo" "$S/verif/props" "$S/verif/evidence"
  rsync -a --exclude .git /repo/ "$S/repo/"
  if ! (cd "$S/repo" && patch -p1 -s < "$V/$seed/patch.diff") ; then
    echo "SELFTEST seed=$(basename $seed) property=$id result=patch-does-not-apply (seed predates a later change of the same lines)"
    rm -rf "$S"; continue
  fi
  cp props/$id.json "$S/verif/props/"; ln -s "$V/spec" "$S/verif/spec"; cp known_findings.txt "$S/verif/"
  out=$(bin/govc check -prop "$id" -tier quick -repo "$S/repo" -verif "$S/verif" 2>&1)
  n=$(echo "$out" | grep -c "^VIOLATION")
  if [ "$n" -gt 0 ]; then
    echo "SELFTEST seed=$(basename $seed) property=$id result=detected violations=$n first=$(echo "$out" | grep "^VIOLATION" | head -1 | sed 's/.*replay=[^ ]*\///; s/\.json.*//')"
  else
    echo "SELFTEST seed=$(basename $seed) property=$id result=MISSED"
  fi
  rm -rf "$S"
done
